--------------------------- MODULE MCStateMachine ---------------------------
EXTENDS StateMachine
\* cells 1..3 = store 1 (module prefix 00000003, substore 0000) keys 6b13, 6b6e, 6b05
\* cells 4..6 = store 2 (module prefix 00000004, substore 8000) same keys
\* 64 leading bits of storePrefix ++ SHA-256(key): the stores split at bit 30, keys 1 and 2 share 12 hash bits,
\* key 3 differs from them in the first hash bit.  The harness recomputes these bits from the real key derivation.
Bits64 == <<
<<0,0,0,0,0,0,0,0,0,0,0,0,0,0,0,0,0,0,0,0,0,0,0,0,0,0,0,0,0,0,1,1,0,0,0,0,0,0,0,0,0,0,0,0,0,0,0,0,0,0,0,0,1,1,1,1,0,0,1,0,0,1,1,0>>,
<<0,0,0,0,0,0,0,0,0,0,0,0,0,0,0,0,0,0,0,0,0,0,0,0,0,0,0,0,0,0,1,1,0,0,0,0,0,0,0,0,0,0,0,0,0,0,0,0,0,0,0,0,1,1,1,1,0,0,1,0,1,0,1,0>>,
<<0,0,0,0,0,0,0,0,0,0,0,0,0,0,0,0,0,0,0,0,0,0,0,0,0,0,0,0,0,0,1,1,0,0,0,0,0,0,0,0,0,0,0,0,0,0,0,0,1,1,1,1,0,1,0,1,0,0,1,0,0,0,1,1>>,
<<0,0,0,0,0,0,0,0,0,0,0,0,0,0,0,0,0,0,0,0,0,0,0,0,0,0,0,0,0,1,0,0,1,0,0,0,0,0,0,0,0,0,0,0,0,0,0,0,0,0,0,0,1,1,1,1,0,0,1,0,0,1,1,0>>,
<<0,0,0,0,0,0,0,0,0,0,0,0,0,0,0,0,0,0,0,0,0,0,0,0,0,0,0,0,0,1,0,0,1,0,0,0,0,0,0,0,0,0,0,0,0,0,0,0,0,0,0,0,1,1,1,1,0,0,1,0,1,0,1,0>>,
<<0,0,0,0,0,0,0,0,0,0,0,0,0,0,0,0,0,0,0,0,0,0,0,0,0,0,0,0,0,1,0,0,1,0,0,0,0,0,0,0,0,0,0,0,0,0,0,0,1,1,1,1,0,1,0,1,0,0,1,0,0,0,1,1>> >>

Presets3 == {<<0,0,0,0,0,0>>, <<1,1,1,1,1,1>>, <<1,0,2,2,0,1>>}
Presets2 == {<<0,0,0,0,0,0>>, <<1,2,0,1,0,0>>}
Presets1 == {<<1,2,0,1,0,0>>}

PE(k, cells, mw, me, mo) == [k |-> k, cells |-> cells, mw |-> mw, me |-> me, mo |-> mo, sn |-> FALSE]
\* the same, the command may also take a snapshot of the stores / restore its latest snapshot (each counts as a write)
PS(k, cells, mw, me, mo) == [k |-> k, cells |-> cells, mw |-> mw, me |-> me, mo |-> mo, sn |-> TRUE]
K(k) == PE(k, {}, 0, 0, 0)
All == 1..6
Kinds == {"tx", "commit", "crash", "reject", "revert", "badrevert", "restart", "badinit", "lose"}

\* preset block (two records: its transaction and its commit); one transaction of <= mw writes and <= me events
\* (<= mo operations in all); commit or crash-after-application-commit; revert or restart
PlanTx(mw, me, mo) == <<K({"preset"}), K({}), PE({"tx"}, All, mw, me, mo), K({"commit", "crash"}), K({"revert", "restart"})>>
PlanTx1 == PlanTx(1, 3, 4)
PlanTx2 == PlanTx(2, 3, 4)
PlanTx3 == PlanTx(3, 3, 4)
PlanTx4 == PlanTx(4, 3, 4)

\* two blocks of one small transaction each, the second committed or crashed, then revert/restart,
\* then a further revert or a new transaction, then a commit
PlanSeq(cells, mw, me, mo) ==
  <<PE({"tx"}, cells, mw, me, mo), K({"commit"}), PE({"tx"}, cells, mw, me, mo), K({"commit", "crash"}),
    K({"revert", "restart"}), PE({"revert", "tx"}, cells, mw, me, mo), K({"commit"})>>
PlanSeqA == PlanSeq({1, 2, 4}, 1, 0, 1)
PlanSeqB == PlanSeq({1, 2, 4}, 1, 1, 2)

\* three blocks (the last one committed or crashed), the engine loses one or two tips, recovery over 1..3 blocks, then a
\* revert or a new block on the recovered state
PlanLose(cells, mw, me, mo) ==
  <<PE({"tx"}, cells, mw, me, mo), K({"commit"}), PE({"tx"}, cells, mw, me, mo), K({"commit"}), PE({"tx"}, cells, mw, me, mo), K({"commit", "crash"}),
    K({"lose"}), K({"restart"}), PE({"revert", "tx"}, cells, mw, me, mo), K({"commit"})>>
\* (simulation only: the exhaustive product of four transactions is out of reach)
PlanLoseS == [i \in 1..Len(PlanLose(All, 4, 3, 6)) |-> [PlanLose(All, 4, 3, 6)[i] EXCEPT !.sn = TRUE]]

\* preset block, then two transactions in one block (the first establishes the overlay the second runs on)
Plan2Tx(c1, mw1, me1, mo1, c2, mw2, me2, mo2) ==
  <<K({"preset"}), K({}), PE({"tx"}, c1, mw1, me1, mo1), PE({"tx"}, c2, mw2, me2, mo2), K({"commit"}), K({"revert"})>>
Plan2TxA == Plan2Tx({1, 2, 4}, 1, 1, 2, {1, 2, 4}, 2, 0, 2)
Plan2TxB == Plan2Tx({1, 2, 4}, 2, 1, 2, {1, 2, 4}, 2, 2, 3)

\* simulation: steps 1, 4, 7.. are transactions (or the recovery after a crash), steps 2, 5, .. do not revert or
\* restart without need, the others are drawn among all enabled kinds
PlanSim(n) == [i \in 1..n |-> PS(IF i = 1 THEN {"tx", "genesis"}
                                 ELSE IF i % 3 = 1 THEN {"tx", "recover"}
                                 ELSE IF i % 3 = 2 THEN {"tx", "commit", "crash", "reject", "recover"} ELSE Kinds, All, 4, 3, 6)]
PlanSim14 == PlanSim(14)
PlanSim22 == PlanSim(22)

\* rejected requests in the middle of a history (exhaustive, small): preset block, one small transaction, the block is
\* committed or offered with a wrong root, a removal or a start with a wrong root, then a real removal / restart
PlanBad(cells, mw, me, mo) ==
  <<K({"preset"}), K({}), PE({"tx"}, cells, mw, me, mo), K({"commit", "reject"}), K({"badrevert", "badinit"}), K({"revert", "restart"})>>
PlanBadA == PlanBad({1, 2, 4}, 1, 1, 2)
PlanBadB == PlanBad(All, 2, 1, 3)
\* (simulation) two blocks, wrong roots anywhere, a crash, recovery, further blocks
PlanBadS ==
  <<PS({"tx", "genesis"}, All, 4, 3, 6), PS({"tx", "commit"}, All, 4, 3, 6), PS({"tx", "commit"}, All, 4, 3, 6), K({"commit", "reject"}),
    K({"badrevert", "badinit", "reject"}), PS({"tx"}, All, 4, 3, 6), K({"reject", "commit", "crash"}), K({"badrevert", "badinit", "restart", "recover"}),
    K({"revert", "restart", "recover"}), PS({"tx", "badrevert"}, All, 4, 3, 6), K({"commit", "badinit"}), K({"commit", "revert", "restart"})>>

\* the genesis block establishes a state at height 0; one transaction; commit | crash; removal back to the genesis
\* state | restart (recovery down to height 0)
PlanGen(cells, mw, me, mo) ==
  <<K({"genesis"}), PE({"tx"}, cells, mw, me, mo), K({"commit", "crash"}), K({"revert", "restart"})>>
PlanGenA == PlanGen({1, 2, 4}, 1, 1, 2)
PlanGenB == PlanGen(All, 2, 2, 3)

\* the command takes snapshots of the stores and restores them (preset block, one transaction of <= mw operations)
PlanSnap(cells, mw, me, mo) == <<K({"preset"}), K({}), PS({"tx"}, cells, mw, me, mo), K({"commit"}), K({"revert"})>>
PlanSnapA == PlanSnap({1, 4}, 3, 1, 3)
PlanSnapB == PlanSnap({1, 4}, 4, 1, 4)
=============================================================================
