---------------------------- MODULE MCReqResp ----------------------------
(* Model-checking wrapper for ReqResp (C17): symmetry over the calls.      *)
EXTENDS ReqResp
Sym == Permutations(Calls)
AllCalls == Calls
NoCalls == {}
\* terminal stuttering so that TLC's built-in deadlock detection reports exactly the ~AllDone dead ends
MCNext == Next \/ (AllDone /\ UNCHANGED vars)
MCSpec == Init /\ [][MCNext]_vars /\ WF_vars(Next)
=============================================================================
