---------------------------- MODULE MCReqResp ----------------------------
(* Model-checking wrapper for ReqResp (C17): symmetry over the calls.      *)
EXTENDS ReqResp
Sym == Permutations(Calls)
AllCalls == Calls
NoCalls == {}
\* ReqResp_stall.cfg (no symmetry): the send of one call blocks in the network for ever, another call carries a deadline
StallOne == {CHOOSE c \in Calls : TRUE}
GiveUpOne == {CHOOSE c \in Calls \ StallOne : TRUE}
\* terminal stuttering so that TLC's built-in deadlock detection reports exactly the ~AllDone dead ends
MCNext == Next \/ (AllDone /\ UNCHANGED vars)
MCSpec == Init /\ [][MCNext]_vars /\ WF_vars(Next)
=============================================================================
