----------------------------- MODULE ForkChoice -----------------------------
(***************************************************************************)
(* LIP-0014: header contradiction and fork-choice classification (C07).    *)
(*  - Contra (operational form, LiskBFT.tla = contradiction.go) is checked *)
(*    against a declarative definition: two headers of one generator       *)
(*    contradict iff neither is a legitimate successor of the other.       *)
(*  - Classify is the ordered predicate cascade of Executer.process().     *)
(* The module has no behaviour of its own: one state per input tuple, so   *)
(* TLC enumerates the finite input space, checks the algebraic properties  *)
(* as invariants and prints the truth tables the harness evaluates on the  *)
(* real functions (AreDistinctHeadersContradicting, forkChoice predicates, *)
(* HeaderHasPriority).                                                     *)
(***************************************************************************)
EXTENDS LiskBFT

CONSTANTS MaxF,      \* field range 0..MaxF for h, mhg, mhp in the pair table
          Mode       \* "pairs" | "classify" | "priority"

VARIABLES x
fvars == <<x>>

(* ---------------- contradiction ---------------- *)
Hdrs == [h : 0..MaxF, mhg : 0..MaxF, mhp : 0..MaxF, gen : 1..2]

\* b is a legitimate successor of a (same generator): it acknowledges everything a's generator
\* had generated, does not move to a chain with lower maxHeightPrevoted, and has a justification
\* for leaving a's block behind (more prevoted, or higher)
Succ(a, b) ==
  /\ b.mhg >= Max2(a.h, a.mhg)
  /\ b.mhp >= a.mhp
  /\ (b.mhp > a.mhp \/ b.h > a.h)

ContraDecl(a, b) == a.gen = b.gen /\ ~Succ(a, b) /\ ~Succ(b, a)

PairProps(a, b) ==
  /\ Contra(a, b) = ContraDecl(a, b)                 \* operational = declarative
  /\ Contra(a, b) = Contra(b, a)                     \* symmetric
  /\ (a.gen # b.gen => ~Contra(a, b))                \* different generators never
  /\ ([a EXCEPT !.gen = 1] = [b EXCEPT !.gen = 1] /\ a.gen = b.gen => Contra(a, b))
                                                     \* same triple, same generator, distinct ids: double forging
  /\ (a.gen = b.gen /\ a.mhg < a.h /\ b.h > a.h /\ b.mhp >= a.mhp /\ b.mhg < a.h => Contra(a, b))
                                                     \* a later, higher header that does not acknowledge the generator's own
                                                     \* earlier block a (claims maxHeightGenerated below a's height) contradicts
                                                     \* it: the "lying" blocks of RecvTime.tla

(* ---------------- fork choice ---------------- *)
\* tip:  id 1, height TipH, maxHeightPrevoted TipP, previous id 0, slot 5, generator 1
\* inc:  [id, h, prev, gen, mhp, slot]
\* Receive times are offsets in seconds from the START of the slot a block was generated in (the slot of its timestamp);
\* BT seconds per slot.  LIP-0014: a block is "received within its slot" iff the receive time lies in [0, BT).  The
\* offsets are the boundary values of that interval: last second of the slot before, first and last second of the slot,
\* first second of the next slot, and the middle of the third slot after it.
\*   recvLast  when the tip was received (NoRecv: nothing remembered - restored from disk or obtained by synchronisation,
\*             which counts as received in time)
\*   recvCur   when the incoming block is received (= the wall clock of the evaluation)
TipH == 3
TipP == 1
BT == 1000
NoRecv == -(10 * BT)
RecvOffsets == {-1, 0, BT - 1, BT, 3 * BT + BT \div 2}
InSlot(o) == 0 <= o /\ o < BT
Incs == [id : {1, 2}, h : (TipH - 1)..(TipH + 2), prev : {0, 1, 9}, gen : {1, 2}, mhp : 0..2, slot : 4..6]
Cases == [inc : Incs, recvLast : RecvOffsets \cup {NoRecv}, recvCur : RecvOffsets]

Duplicate(i) == i.h = TipH /\ i.mhp = TipP /\ i.prev = 0
TipInTime(c) == c.recvLast = NoRecv \/ InSlot(c.recvLast)
\* the five predicates of forkchoice.go
PIdentical(c) == c.inc.id = 1
PValid(c) == c.inc.h = TipH + 1 /\ c.inc.prev = 1
PDouble(c) == Duplicate(c.inc) /\ c.inc.gen = 1
PTie(c) == Duplicate(c.inc) /\ 5 < c.inc.slot /\ ~TipInTime(c) /\ InSlot(c.recvCur)
PDiff(c) == TipP < c.inc.mhp \/ (TipH < c.inc.h /\ TipP = c.inc.mhp)
\* their evaluation order in Executer.process()
Classify(c) ==
  IF PIdentical(c) THEN "identical"
  ELSE IF PValid(c) THEN "valid"
  ELSE IF PDouble(c) THEN "doubleforging"
  ELSE IF PTie(c) THEN "tiebreak"
  ELSE IF PDiff(c) THEN "differentchain"
  ELSE "discard"

\* LIP-0014: a block that is neither a child of the tip nor a duplicate of it triggers a chain
\* switch exactly when it is Better in the (maxHeightPrevoted, height) order
ClassifyProps(c) ==
  LET i == c.inc  k == Classify(c) IN
  /\ (k = "differentchain" => Better([mhp |-> i.mhp, h |-> i.h], [mhp |-> TipP, h |-> TipH]))
  /\ (k = "discard" /\ ~Duplicate(i) => ~Better([mhp |-> i.mhp, h |-> i.h], [mhp |-> TipP, h |-> TipH]))
  /\ (k \in {"doubleforging", "tiebreak"} => Duplicate(i))
  \* a tip that was received within its slot (or whose receive time is not remembered) is never replaced by a tie break,
  \* and neither is any tip by a block that arrives outside the slot it was generated for
  /\ (k = "tiebreak" => ~TipInTime(c) /\ InSlot(c.recvCur) /\ i.gen # 1)

(* ---------------- HeaderHasPriority / Synced ---------------- *)
\* header (version ver, height hh, maxHeightPrevoted hp) has priority over a chain whose tip is (h, p).
\* A version-2 header: the LIP-0014 order on (maxHeightPrevoted, height).  A genesis header (version 0) carries no
\* BFT information: it has priority exactly over chains that do not reach above it.
\* Executer.Synced(h, p) asks the same question for the node's own tip (hh = its height, hp = the prevoted height of its
\* chain INCLUDING the tip): "is my chain ahead of a peer that reports (h, p)".
Prios == [ver : {0, 2}, hh : 0..MaxF, hp : 0..MaxF, h : 0..MaxF, p : 0..MaxF]
HasPriority(q) ==
  IF q.ver = 0 THEN q.h <= q.hh /\ q.p <= q.hh
  ELSE Better([mhp |-> q.hp, h |-> q.hh], [mhp |-> q.p, h |-> q.h])
\* the genesis rule is monotone too (a chain above the genesis block is never behind it), and for version 2 exactly one of
\* "has priority", "the other has priority", "equal" holds
PrioProps(q) ==
  /\ (q.ver = 2 => (HasPriority(q) => ~HasPriority([q EXCEPT !.hh = q.h, !.hp = q.p, !.h = q.hh, !.p = q.hp])))
  /\ (q.ver = 2 /\ q.hh = q.h /\ q.hp = q.p => ~HasPriority(q))
  /\ (q.ver = 0 /\ q.h > q.hh => ~HasPriority(q))

Init == x \in (IF Mode = "pairs" THEN Hdrs \X Hdrs ELSE IF Mode = "classify" THEN Cases ELSE Prios)
Next == UNCHANGED x
Spec == Init /\ [][Next]_fvars

Props == IF Mode = "pairs" THEN PairProps(x[1], x[2]) ELSE IF Mode = "classify" THEN ClassifyProps(x) ELSE PrioProps(x)

B(b) == IF b THEN 1 ELSE 0
Row ==
  IF Mode = "pairs"
  THEN PrintT(<<"TT", x[1].h, x[1].mhg, x[1].mhp, x[1].gen, x[2].h, x[2].mhg, x[2].mhp, x[2].gen, B(Contra(x[1], x[2]))>>)
  ELSE IF Mode = "classify"
  THEN PrintT(<<"TC", x.inc.id, x.inc.h, x.inc.prev, x.inc.gen, x.inc.mhp, x.inc.slot, x.recvLast, x.recvCur, Classify(x), B(PIdentical(x)), B(PValid(x)), B(PDouble(x)), B(PTie(x)), B(PDiff(x))>>)
  ELSE PrintT(<<"TP", x.hh, x.hp, x.h, x.p, B(HasPriority(x)), x.ver>>)
=============================================================================
