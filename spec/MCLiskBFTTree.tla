--------------------------- MODULE MCLiskBFTTree ---------------------------
EXTENDS LiskBFTTree
\* weight vectors / parameter choices used by the cfg files (cfg syntax has no tuples)
W221 == <<2, 2, 1>>
W1111 == <<1, 1, 1, 1>>
W112 == <<1, 1, 2>>
W21 == <<2, 1>>
Choices21 == << [pcT |-> 2, certT |-> 3, w |-> <<2, 2>>], [pcT |-> 1, certT |-> 1, w |-> <<1, 0>>] >>
NoChoices == <<>>
\* validator 3 (Byzantine, weight 1) leaves / weights change; Byzantine weight stays < 1/3
Choices221 == << [pcT |-> 3, certT |-> 3, w |-> <<2, 2, 0>>], [pcT |-> 4, certT |-> 4, w |-> <<3, 2, 1>>] >>
=============================================================================
