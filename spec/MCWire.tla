------------------------------- MODULE MCWire -------------------------------
(***************************************************************************)
(* Model-checking harness for Wire.tla (C08).  One module, four modes:     *)
(*  "canon"     the state is a byte string grown one byte at a time over   *)
(*              Alphabet up to MaxLen: exhaustively, for every schema in   *)
(*              Schemas,  StrictAccept(b) => b = Encode(Decode(b)) and     *)
(*              Decode(b) is well typed (canonicity: at most one accepted  *)
(*              byte string per value).                                    *)
(*  "roundtrip" one state per (schema, value) over a value universe with   *)
(*              boundary integers: Decode(Encode(v)) = v, StrictAccept.    *)
(*  "deviants"  one state per choice of per-field deviation classes for    *)
(*              the transaction schema; prints every concrete byte string  *)
(*              with the verdict of StrictAccept; the harness feeds them   *)
(*              to the real blockchain.NewTransaction.  Invariant:         *)
(*              accepted => canonical.                                     *)
(*  "lisk32"    one state per address; prints text symbols and the verdict *)
(*              of every single-symbol corruption.                        *)
(***************************************************************************)
EXTENDS Wire, Json

CONSTANTS Mode, MaxLen, Alpha, MaxDev, NBase, NAddr, NCorrupt

VARIABLE x
B(c) == IF c THEN 1 ELSE 0

(* ------------------------------ schemas ------------------------------- *)
F(n, k) == <<n, k, <<>>>>
SInner == <<F(1, "uint"), F(2, "bytes")>>
\* schemas of the exhaustive canonicity search (short minimal encodings)
Schemas == <<
  <<F(1, "uint"), F(2, "bytes")>>,
  <<F(1, "string"), F(2, "uint32"), F(3, "rbytes")>>,
  <<F(1, "bool"), F(2, "ruint")>>,
  <<<<1, "nested", <<F(1, "uint")>>>>, F(2, "rsint")>>,
  <<<<1, "rnested", <<F(1, "bool")>>>>, F(2, "rbool")>>,
  <<F(1, "sint"), F(3, "rstring")>> >>
\* schemas of the value round trip (adds deeper nesting and every kind)
RtSchemas == Schemas \o <<
  <<F(1, "sint"), <<2, "nested", SInner>>, F(3, "ruint32")>>,
  <<<<1, "rnested", SInner>>, F(2, "rbool")>>,
  <<F(1, "bytes"), F(2, "rsint"), F(3, "rstring")>>,
  <<<<3, "nested", <<<<1, "nested", <<F(2, "string")>>>>, F(20, "bool")>>>>, F(300, "uint")>> >>

\* byte alphabets of the exhaustive search: keys of fields 1..3 in both wire types, small lengths/values,
\* continuation bytes (128, 129, 255) for padded and overflowing varints; "B" is smaller, for longer strings
Alphabet == IF Alpha = "A" THEN {0, 1, 2, 3, 8, 10, 16, 18, 26, 127, 128, 129, 255}
            ELSE {0, 1, 2, 8, 10, 18, 128, 255}

(* --------------------------- value universe -------------------------- *)
Rep(n, c) == [i \in 1..n |-> c]
U64s == { <<>>, <<1>>, <<127>>, <<0, 1>>, <<127, 127, 127, 127, 15>>, <<0, 0, 0, 0, 16>>,
          Rep(9, 0) \o <<1>>, Rep(9, 127) \o <<1>> }
U32s == { <<>>, <<1>>, <<127>>, <<0, 1>>, <<127, 127, 127, 127, 15>> }
I64s == { <<0, <<>>>>, <<1, <<>>>>, <<0, <<1>>>>, <<1, <<63>>>>, <<0, <<64>>>>, <<0, Rep(9, 127)>>, <<1, Rep(9, 127)>> }
Byteses == { <<>>, <<0>>, <<1, 128>>, Rep(128, 7) }
Strings == { <<>>, <<97>>, <<195, 169>>, <<240, 159, 152, 128>> }
RECURSIVE ValuesL(_, _, _)
Seqs(S) == {<<>>} \cup {<<a>> : a \in S} \cup {<<a, c>> : a \in S, c \in S}
Lite(S, lite) == IF lite THEN {a \in S : Len(a) <= 2} ELSE S      \* fewer values below repeated nesting
FV(f, lite) == LET k == f[2] IN
  CASE k = "uint" -> Lite(U64s, lite) [] k = "uint32" -> Lite(U32s, lite) [] k = "sint" -> IF lite THEN {<<0, <<>>>>, <<1, <<63>>>>} ELSE I64s
    [] k = "bool" -> {0, 1} [] k = "bytes" -> Lite(Byteses, lite) [] k = "string" -> Lite(Strings, lite)
    [] k = "ruint" -> Seqs({<<>>, <<0, 1>>, Rep(9, 127) \o <<1>>}) [] k = "ruint32" -> Seqs({<<>>, <<0, 1>>})
    [] k = "rsint" -> Seqs({<<0, <<>>>>, <<1, <<>>>>, <<1, Rep(9, 127)>>}) [] k = "rbool" -> Seqs({0, 1})
    [] k = "rbytes" -> Seqs({<<>>, <<1, 128>>}) [] k = "rstring" -> Seqs({<<>>, <<195, 169>>})
    [] k = "nested" -> ValuesL(f[3], 1, lite)
    [] k = "rnested" -> Seqs(ValuesL(f[3], 1, TRUE))
ValuesL(s, i, lite) == IF i > Len(s) THEN {<<>>} ELSE {<<a>> \o r : a \in FV(s[i], lite), r \in ValuesL(s, i + 1, lite)}
Values(s, i) == ValuesL(s, i, FALSE)

(* ------------------------- transaction deviants ----------------------- *)
TxSchema == <<F(1, "string"), F(2, "string"), F(3, "uint"), F(4, "uint"), F(5, "bytes"), F(6, "bytes"), F(7, "rbytes")>>
TxBases == <<
  << <<116, 111, 107>>, <<116, 120>>, <<5>>, <<64, 66, 15>>, <<1, 2, 3>>, <<9, 9>>, << <<7, 7>> >> >>,
  << <<>>, <<>>, <<>>, <<>>, <<>>, <<>>, <<>> >>,
  << <<195, 169>>, <<97>>, Rep(9, 127) \o <<1>>, Rep(9, 0) \o <<1>>, <<0>>, Rep(130, 255), << <<1>>, <<>> >> >>,
  << <<109>>, <<99>>, <<127>>, <<0, 1>>, Rep(32, 200), <<>>, << Rep(64, 1), Rep(64, 2) >> >> >>

Pad(v) == [v EXCEPT ![Len(v)] = @ + 128] \o <<0>>          \* same number, one group too many
\* the same number in exactly 10 bytes (the maximal varint length): continuation groups of zero up to the 10th byte
PadMax(v) == IF Len(v) >= 10 THEN Pad(v) ELSE [v EXCEPT ![Len(v)] = @ + 128] \o Rep(9 - Len(v), 128) \o <<0>>
Ovf10 == Rep(9, 255) \o <<2>>                              \* 10 bytes, 10th above 1: beyond 2^64
Ovf10b == Rep(9, 255) \o <<3>>                             \* 10th byte 3: 2^64-1 with a bit beyond
Ovf11 == Rep(10, 128) \o <<1>>                             \* no termination within 10 bytes
Huge == Rep(9, 255) \o <<1>>                               \* 2^64-1, a legal varint

VarClasses == {"padval", "padkey", "padvalmax", "padkeymax", "wtbit2", "ovf10", "ovf10b", "ovf11", "trunc", "wrongnum", "wrongwt", "badwt", "missing", "dup"}
LdClasses == {"padkey", "padlen", "padkeymax", "padlenmax", "wtbit2", "ovf10", "ovf10b", "ovf11", "trunc", "wrongnum", "wrongwt", "badwt", "missing", "dup",
              "lenpast", "lenhuge", "lenshort"}
StrClasses == LdClasses \cup {"badutf8", "badutf8b", "overlong", "nonnfc", "nonnfc2", "nfcok"}
RepClasses == LdClasses \cup {"emptyelem"}
ClassesOf(f) == IF f[2] = "uint" THEN VarClasses ELSE IF f[2] = "string" THEN StrClasses
                ELSE IF f[2] = "rbytes" THEN RepClasses ELSE LdClasses

DevVar(num, v, c) ==
  LET K == Key(num, 0)  V == Varint(v) IN
  CASE c = "canon" -> K \o V
    [] c = "padval" -> K \o Pad(V)
    [] c = "padkey" -> Pad(K) \o V
    [] c = "padvalmax" -> K \o PadMax(V)
    [] c = "padkeymax" -> PadMax(K) \o V
    [] c = "ovf10" -> K \o Ovf10
    [] c = "ovf10b" -> K \o Ovf10b
    [] c = "ovf11" -> K \o Ovf11
    [] c = "trunc" -> K \o (IF Len(V) = 1 THEN <<>> ELSE SubSeq(V, 1, Len(V) - 1))
    [] c = "wrongnum" -> Key(num + 16, 0) \o V
    [] c = "wrongwt" -> Key(num, 2) \o V
    [] c = "badwt" -> Key(num, 5) \o V
    [] c = "wtbit2" -> Key(num, 4) \o V                       \* the right wire type with bit 2 set: 4 is not a wire type
    [] c = "missing" -> <<>>
    [] c = "dup" -> K \o V \o K \o V

DevLd(num, d, c) ==
  LET K == Key(num, 2)  L == Varint(NatToNum(Len(d))) IN
  CASE c = "canon" -> K \o L \o d
    [] c = "padkey" -> Pad(K) \o L \o d
    [] c = "padlen" -> K \o Pad(L) \o d
    [] c = "padkeymax" -> PadMax(K) \o L \o d
    [] c = "padlenmax" -> K \o PadMax(L) \o d
    [] c = "ovf10" -> K \o Ovf10 \o d
    [] c = "ovf10b" -> K \o Ovf10b \o d
    [] c = "ovf11" -> K \o Ovf11 \o d
    [] c = "trunc" -> K \o L \o (IF d = <<>> THEN <<>> ELSE SubSeq(d, 1, Len(d) - 1))
    [] c = "wrongnum" -> Key(num + 16, 2) \o L \o d
    [] c = "wrongwt" -> Key(num, 0) \o L \o d
    [] c = "badwt" -> Key(num, 1) \o L \o d
    [] c = "wtbit2" -> Key(num, 6) \o L \o d                  \* 2 with bit 2 set: 6 is not a wire type
    [] c = "missing" -> <<>>
    [] c = "dup" -> K \o L \o d \o K \o L \o d
    [] c = "lenpast" -> K \o Varint(NatToNum(Len(d) + 100)) \o d
    [] c = "lenhuge" -> K \o Huge \o d
    [] c = "lenshort" -> K \o (IF d = <<>> THEN <<0>> ELSE Varint(NatToNum(Len(d) - 1))) \o d
    [] c = "badutf8" -> K \o <<1, 255>>
    [] c = "badutf8b" -> K \o <<2, 195, 40>>
    [] c = "overlong" -> K \o <<2, 192, 175>>
    [] c = "nonnfc" -> K \o <<3, 101, 204, 129>>
    [] c = "nonnfc2" -> K \o <<3, 226, 132, 171>>
    [] c = "nfcok" -> K \o <<2, 195, 169>>                     \* a different, canonical value
    [] c = "emptyelem" -> K \o L \o d \o K \o <<0>>            \* one more (empty) element: canonical for another value

DevField(f, v, c) ==
  IF f[2] = "uint" THEN DevVar(f[1], v, c)
  ELSE IF f[2] = "rbytes"
       THEN (IF c \in {"missing"} THEN <<>>
             ELSE IF v = <<>> THEN (IF c = "canon" THEN <<>> ELSE DevLd(f[1], <<>>, c))     \* deviant single element
             ELSE Flat([i \in 1..(Len(v) - 1) |-> DevLd(f[1], v[i], "canon")]) \o DevLd(f[1], v[Len(v)], c))
  ELSE DevLd(f[1], v, c)

\* global deviations applied to the whole message
Globals == {<<"none", 0>>, <<"trail0", 0>>, <<"trailkey", 0>>, <<"trailsig", 0>>, <<"lead0", 0>>}
           \cup {<<"cut", k>> : k \in 1..12} \cup {<<"swap", i>> : i \in 1..6}
DevMsg(base, cls, g) ==
  LET parts == [i \in 1..7 |-> DevField(TxSchema[i], base[i], cls[i])]
      order == IF g[1] = "swap" THEN [i \in 1..7 |-> IF i = g[2] THEN g[2] + 1 ELSE IF i = g[2] + 1 THEN g[2] ELSE i]
               ELSE [i \in 1..7 |-> i]
      m == Flat([i \in 1..7 |-> parts[order[i]]])
  IN CASE g[1] \in {"none", "swap"} -> m
       [] g[1] = "trail0" -> m \o <<0>>
       [] g[1] = "trailkey" -> m \o <<64, 0>>                    \* field 8, wire type 0, value 0
       [] g[1] = "trailsig" -> m \o <<58, 1, 77>>                \* one more signature: canonical for another value
       [] g[1] = "lead0" -> <<0>> \o m
       [] g[1] = "cut" -> IF g[2] >= Len(m) THEN <<>> ELSE SubSeq(m, 1, Len(m) - g[2])

AllCanon == [i \in 1..7 |-> "canon"]
ClassTuples(maxd) ==
  UNION { { [i \in 1..7 |-> IF i \in D THEN h[i] ELSE "canon"] :
              h \in {hh \in [D -> StrClasses \cup VarClasses \cup RepClasses] : \A i \in D : hh[i] \in ClassesOf(TxSchema[i])} }
          : D \in {DD \in SUBSET (1..7) : Cardinality(DD) <= maxd} }
DevChoices ==        \* (TLC evaluates constant definitions at start-up: keep this one empty in the other modes)
  IF Mode # "deviants" THEN {} ELSE
  {<<bi, cls, <<"none", 0>>>> : bi \in 1..NBase, cls \in ClassTuples(MaxDev)}
  \cup {<<bi, cls, g>> : bi \in 1..NBase, cls \in ClassTuples(1), g \in Globals \ {<<"none", 0>>}}

(* ------------------------------- lisk32 ------------------------------- *)
Addr(k) ==       \* a few dozen deterministic 20-byte addresses
  CASE k = 1 -> Rep(20, 0)
    [] k = 2 -> Rep(20, 255)
    [] k = 3 -> [i \in 1..20 |-> i]
    [] k \in 4..23 -> [i \in 1..20 |-> IF i = k - 3 THEN 128 ELSE 0]            \* a single bit
    [] k \in 24..43 -> [i \in 1..20 |-> IF i = k - 23 THEN 1 ELSE 255]
    [] OTHER -> [i \in 1..20 |-> (k * 37 + i * i * 11 + ((k * i) % 13)) % 256]

(* ------------------------------ behaviour ----------------------------- *)
Init == CASE Mode = "canon" -> x = <<>>
          [] Mode = "roundtrip" -> x \in UNION {{<<si, v>> : v \in Values(RtSchemas[si], 1)} : si \in 1..Len(RtSchemas)}
          [] Mode = "deviants" -> x \in DevChoices
          [] Mode = "lisk32" -> x \in {<<k, 0>> : k \in 1..NAddr}
Next == \/ /\ Mode = "canon" /\ Len(x) < MaxLen
           /\ \E a \in Alphabet : x' = Append(x, a)
        \/ /\ Mode = "lisk32" /\ x[2] = 0 /\ x[1] <= NCorrupt          \* one state per corrupted position
           /\ \E pos \in 1..38 : x' = <<x[1], pos>>
Spec == Init /\ [][Next]_x

Canon ==
  Mode = "canon" =>
    \A si \in 1..Len(Schemas) :
      LET s == Schemas[si]  r == StrictParse(s, x) IN
      r.ok => /\ WellTyped(s, r.v)
              /\ Encode(s, r.v) = x
              /\ PrintT(<<"ACC", si, Len(x)>>)

RoundTrip ==
  Mode = "roundtrip" =>
    LET s == RtSchemas[x[1]]  v == x[2]  e == Encode(s, v) IN
    /\ WellTyped(s, v)
    /\ StrictAccept(s, e)
    /\ Decode(s, e) = v

Deviant ==
  Mode = "deviants" =>
    LET m == DevMsg(TxBases[x[1]], x[2], x[3])
        r == StrictParse(TxSchema, m) IN
    /\ (r.ok => WellTyped(TxSchema, r.v) /\ Encode(TxSchema, r.v) = m)        \* accepted => canonical
    /\ (x[2] = AllCanon /\ x[3][1] = "none" => r.ok /\ r.v = TxBases[x[1]])   \* the canonical one is accepted
    /\ PrintT(<<"DV", ToJson([base |-> x[1], cls |-> x[2], glob |-> x[3][1], k |-> x[3][2], b |-> m, ok |-> B(r.ok)])>>)

Lisk ==
  Mode = "lisk32" =>
    LET a == Addr(x[1])  t == L32Encode(a)  pos == x[2] IN
    IF pos = 0
    THEN /\ L32Valid(t) /\ L32Decode(t) = a
         /\ PrintT(<<"L32", ToJson([addr |-> a, sym |-> t, charset |-> L32Charset])>>)
    ELSE LET ok == [sy \in 1..32 |-> L32Valid([t EXCEPT ![pos] = sy - 1])] IN
         /\ \A sy \in 1..32 : ok[sy] = (sy - 1 = t[pos])                   \* every single-symbol error is detected
         /\ PrintT(<<"L32C", ToJson([sym |-> t, pos |-> pos, ok |-> [sy \in 1..32 |-> B(ok[sy])]])>>)

\* strings used by the deviants with the classification the specification gives them (checked by the harness)
StrSamples == {<<255>>, <<195, 40>>, <<192, 175>>, <<101, 204, 129>>, <<226, 132, 171>>, <<65, 204, 138>>, <<195, 169>>,
               <<116, 111, 107>>, <<>>, <<240, 159, 152, 128>>, <<237, 160, 128>>, <<244, 144, 128, 128>>}
ASSUME \A st \in StrSamples : PrintT(<<"STR", ToJson([b |-> st, utf8 |-> B(Utf8Valid(st)), nfc |-> B(IsNFC(st))])>>)
=============================================================================
