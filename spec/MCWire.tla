------------------------------- MODULE MCWire -------------------------------
(***************************************************************************)
(* Model-checking harness for Wire.tla (C08).  One module, four modes:     *)
(*  "canon"     the state is a byte string grown one byte at a time over   *)
(*              Alphabet up to MaxLen: exhaustively, for every schema in   *)
(*              Schemas,  StrictAccept(b) => b = Encode(Decode(b)) and     *)
(*              Decode(b) is well typed (canonicity: at most one accepted  *)
(*              byte string per value).                                    *)
(*  "roundtrip" one state per (schema, value) over a value universe with   *)
(*              boundary integers: Decode(Encode(v)) = v, StrictAccept.    *)
(*  "deviants"  one state per choice of per-field deviation classes for    *)
(*              the transaction schema; prints every concrete byte string  *)
(*              with the verdict of StrictAccept; the harness feeds them   *)
(*              to the real blockchain.NewTransaction.  Invariant:         *)
(*              accepted => canonical.                                     *)
(*  "lisk32"    one state per address; prints text symbols and the verdict *)
(*              of every single-symbol corruption.                        *)
(***************************************************************************)
EXTENDS Wire, Json

CONSTANTS Mode, MaxLen, Alpha, MaxDev, NBase, NAddr, NCorrupt

VARIABLE x
B(c) == IF c THEN 1 ELSE 0

(* ------------------------------ schemas ------------------------------- *)
F(n, k) == <<n, k, <<>>>>
SInner == <<F(1, "uint"), F(2, "bytes")>>
\* schemas of the exhaustive canonicity search (short minimal encodings)
Schemas == <<
  <<F(1, "uint"), F(2, "bytes")>>,
  <<F(1, "string"), F(2, "uint32"), F(3, "rbytes")>>,
  <<F(1, "bool"), F(2, "ruint")>>,
  <<<<1, "nested", <<F(1, "uint")>>>>, F(2, "rsint")>>,
  <<<<1, "rnested", <<F(1, "bool")>>>>, F(2, "rbool")>>,
  <<F(1, "sint"), F(3, "rstring")>> >>
\* schemas of the value round trip (adds deeper nesting and every kind)
RtSchemas == Schemas \o <<
  <<F(1, "sint"), <<2, "nested", SInner>>, F(3, "ruint32")>>,
  <<<<1, "rnested", SInner>>, F(2, "rbool")>>,
  <<F(1, "bytes"), F(2, "rsint"), F(3, "rstring")>>,
  <<<<3, "nested", <<<<1, "nested", <<F(2, "string")>>>>, F(20, "bool")>>>>, F(300, "uint")>> >>

\* byte alphabets of the exhaustive search: keys of fields 1..3 in both wire types, small lengths/values,
\* continuation bytes (128, 129, 255) for padded and overflowing varints; "B" is smaller, for longer strings
Alphabet == IF Alpha = "A" THEN {0, 1, 2, 3, 8, 10, 16, 18, 26, 127, 128, 129, 255}
            ELSE {0, 1, 2, 8, 10, 18, 128, 255}

(* --------------------------- value universe -------------------------- *)
Rep(n, c) == [i \in 1..n |-> c]
U64s == { <<>>, <<1>>, <<127>>, <<0, 1>>, <<127, 127, 127, 127, 15>>, <<0, 0, 0, 0, 16>>,
          Rep(9, 0) \o <<1>>, Rep(9, 127) \o <<1>> }
U32s == { <<>>, <<1>>, <<127>>, <<0, 1>>, <<127, 127, 127, 127, 15>> }
I64s == { <<0, <<>>>>, <<1, <<>>>>, <<0, <<1>>>>, <<1, <<63>>>>, <<0, <<64>>>>, <<0, Rep(9, 127)>>, <<1, Rep(9, 127)>> }
Byteses == { <<>>, <<0>>, <<1, 128>>, Rep(128, 7) }
Strings == { <<>>, <<97>>, <<195, 169>>, <<240, 159, 152, 128>> }
RECURSIVE ValuesL(_, _, _)
Seqs(S) == {<<>>} \cup {<<a>> : a \in S} \cup {<<a, c>> : a \in S, c \in S}
Lite(S, lite) == IF lite THEN {a \in S : Len(a) <= 2} ELSE S      \* fewer values below repeated nesting
FV(f, lite) == LET k == f[2] IN
  CASE k = "uint" -> Lite(U64s, lite) [] k = "uint32" -> Lite(U32s, lite) [] k = "sint" -> IF lite THEN {<<0, <<>>>>, <<1, <<63>>>>} ELSE I64s
    [] k = "bool" -> {0, 1} [] k = "bytes" -> Lite(Byteses, lite) [] k = "string" -> Lite(Strings, lite)
    [] k = "ruint" -> Seqs({<<>>, <<0, 1>>, Rep(9, 127) \o <<1>>}) [] k = "ruint32" -> Seqs({<<>>, <<0, 1>>})
    [] k = "rsint" -> Seqs({<<0, <<>>>>, <<1, <<>>>>, <<1, Rep(9, 127)>>}) [] k = "rbool" -> Seqs({0, 1})
    [] k = "rbytes" -> Seqs({<<>>, <<1, 128>>}) [] k = "rstring" -> Seqs({<<>>, <<195, 169>>})
    [] k = "nested" -> ValuesL(f[3], 1, lite)
    [] k = "rnested" -> Seqs(ValuesL(f[3], 1, TRUE))
ValuesL(s, i, lite) == IF i > Len(s) THEN {<<>>} ELSE {<<a>> \o r : a \in FV(s[i], lite), r \in ValuesL(s, i + 1, lite)}
Values(s, i) == ValuesL(s, i, FALSE)

(* ------------------------- transaction deviants ----------------------- *)
TxSchema == <<F(1, "string"), F(2, "string"), F(3, "uint"), F(4, "uint"), F(5, "bytes"), F(6, "bytes"), F(7, "rbytes")>>
TxBases == <<
  << <<116, 111, 107>>, <<116, 120>>, <<5>>, <<64, 66, 15>>, <<1, 2, 3>>, <<9, 9>>, << <<7, 7>> >> >>,
  << <<>>, <<>>, <<>>, <<>>, <<>>, <<>>, <<>> >>,
  << <<195, 169>>, <<97>>, Rep(9, 127) \o <<1>>, Rep(9, 0) \o <<1>>, <<0>>, Rep(130, 255), << <<1>>, <<>> >> >>,
  << <<109>>, <<99>>, <<127>>, <<0, 1>>, Rep(32, 200), <<>>, << Rep(64, 1), Rep(64, 2) >> >> >>

Pad(v) == [v EXCEPT ![Len(v)] = @ + 128] \o <<0>>          \* same number, one group too many
\* the same number in exactly 10 bytes (the maximal varint length): continuation groups of zero up to the 10th byte
PadMax(v) == IF Len(v) >= 10 THEN Pad(v) ELSE [v EXCEPT ![Len(v)] = @ + 128] \o Rep(9 - Len(v), 128) \o <<0>>
Ovf10 == Rep(9, 255) \o <<2>>                              \* 10 bytes, 10th above 1: beyond 2^64
Ovf10b == Rep(9, 255) \o <<3>>                             \* 10th byte 3: 2^64-1 with a bit beyond
Ovf11 == Rep(10, 128) \o <<1>>                             \* no termination within 10 bytes
Huge == Rep(9, 255) \o <<1>>                               \* 2^64-1, a legal varint

\* numerals that are in shortest form but alias a legal one modulo 2^32 / 2^35 (a decoder that narrows a key or a length
\* to 32 bits, or masks the field number, takes them for the legal numeral): key + 2^32, key + 2^35, length + 2^32
PadTo(d, n) == d \o Rep(n - Len(d), 0)                     \* Len(d) <= n
Plus2p32(d) == PadTo(d, 4) \o <<16 + (IF Len(d) = 5 THEN d[5] ELSE 0)>>      \* d < 2^32
KeyHi32(num, wt) == Varint(Plus2p32(NatToNum(num * 8 + wt)))
KeyHi35(num, wt) == Varint(PadTo(NatToNum(num * 8 + wt), 5) \o <<1>>)
HiClasses == {"keyhi32", "keyhi35", "lenhi32"}              \* single deviations only (kept out of the pair product)

VarClasses == {"padval", "padkey", "padvalmax", "padkeymax", "wtbit2", "ovf10", "ovf10b", "ovf11", "trunc", "wrongnum", "wrongwt", "badwt", "missing", "dup",
               "keyhi32", "keyhi35"}
LdClasses == {"padkey", "padlen", "padkeymax", "padlenmax", "wtbit2", "ovf10", "ovf10b", "ovf11", "trunc", "wrongnum", "wrongwt", "badwt", "missing", "dup",
              "lenpast", "lenhuge", "lenshort", "keyhi32", "keyhi35", "lenhi32"}
StrClasses == LdClasses \cup {"badutf8", "badutf8b", "overlong", "nonnfc", "nonnfc2", "nfcok"}
RepClasses == LdClasses \cup {"emptyelem"}
ClassesOf(f) == IF f[2] = "uint" THEN VarClasses ELSE IF f[2] = "string" THEN StrClasses
                ELSE IF f[2] = "rbytes" THEN RepClasses ELSE LdClasses

DevVar(num, v, c) ==
  LET K == Key(num, 0)  V == Varint(v) IN
  CASE c = "canon" -> K \o V
    [] c = "padval" -> K \o Pad(V)
    [] c = "padkey" -> Pad(K) \o V
    [] c = "padvalmax" -> K \o PadMax(V)
    [] c = "padkeymax" -> PadMax(K) \o V
    [] c = "ovf10" -> K \o Ovf10
    [] c = "ovf10b" -> K \o Ovf10b
    [] c = "ovf11" -> K \o Ovf11
    [] c = "trunc" -> K \o (IF Len(V) = 1 THEN <<>> ELSE SubSeq(V, 1, Len(V) - 1))
    [] c = "wrongnum" -> Key(num + 16, 0) \o V
    [] c = "wrongwt" -> Key(num, 2) \o V
    [] c = "badwt" -> Key(num, 5) \o V
    [] c = "wtbit2" -> Key(num, 4) \o V                       \* the right wire type with bit 2 set: 4 is not a wire type
    [] c = "missing" -> <<>>
    [] c = "dup" -> K \o V \o K \o V
    [] c = "keyhi32" -> KeyHi32(num, 0) \o V
    [] c = "keyhi35" -> KeyHi35(num, 0) \o V

DevLd(num, d, c) ==
  LET K == Key(num, 2)  L == Varint(NatToNum(Len(d))) IN
  CASE c = "canon" -> K \o L \o d
    [] c = "padkey" -> Pad(K) \o L \o d
    [] c = "padlen" -> K \o Pad(L) \o d
    [] c = "padkeymax" -> PadMax(K) \o L \o d
    [] c = "padlenmax" -> K \o PadMax(L) \o d
    [] c = "ovf10" -> K \o Ovf10 \o d
    [] c = "ovf10b" -> K \o Ovf10b \o d
    [] c = "ovf11" -> K \o Ovf11 \o d
    [] c = "trunc" -> K \o L \o (IF d = <<>> THEN <<>> ELSE SubSeq(d, 1, Len(d) - 1))
    [] c = "wrongnum" -> Key(num + 16, 2) \o L \o d
    [] c = "wrongwt" -> Key(num, 0) \o L \o d
    [] c = "badwt" -> Key(num, 1) \o L \o d
    [] c = "wtbit2" -> Key(num, 6) \o L \o d                  \* 2 with bit 2 set: 6 is not a wire type
    [] c = "missing" -> <<>>
    [] c = "dup" -> K \o L \o d \o K \o L \o d
    [] c = "lenpast" -> K \o Varint(NatToNum(Len(d) + 100)) \o d
    [] c = "lenhuge" -> K \o Huge \o d
    [] c = "lenshort" -> K \o (IF d = <<>> THEN <<0>> ELSE Varint(NatToNum(Len(d) - 1))) \o d
    [] c = "keyhi32" -> KeyHi32(num, 2) \o L \o d
    [] c = "keyhi35" -> KeyHi35(num, 2) \o L \o d
    [] c = "lenhi32" -> K \o Varint(Plus2p32(NatToNum(Len(d)))) \o d
    [] c = "badutf8" -> K \o <<1, 255>>
    [] c = "badutf8b" -> K \o <<2, 195, 40>>
    [] c = "overlong" -> K \o <<2, 192, 175>>
    [] c = "nonnfc" -> K \o <<3, 101, 204, 129>>
    [] c = "nonnfc2" -> K \o <<3, 226, 132, 171>>
    [] c = "nfcok" -> K \o <<2, 195, 169>>                     \* a different, canonical value
    [] c = "emptyelem" -> K \o L \o d \o K \o <<0>>            \* one more (empty) element: canonical for another value

\* a repeated field deviates in its LAST element, or (first = TRUE: global deviation "first") in its FIRST one, so that
\* canonical elements follow the deviant one
DevField(f, v, c, first) ==
  IF f[2] = "uint" THEN DevVar(f[1], v, c)
  ELSE IF f[2] = "rbytes"
       THEN (IF c \in {"missing"} THEN <<>>
             ELSE IF v = <<>> THEN (IF c = "canon" THEN <<>> ELSE DevLd(f[1], <<>>, c))     \* deviant single element
             ELSE IF first THEN DevLd(f[1], v[1], c) \o Flat([i \in 1..(Len(v) - 1) |-> DevLd(f[1], v[i + 1], "canon")])
             ELSE Flat([i \in 1..(Len(v) - 1) |-> DevLd(f[1], v[i], "canon")]) \o DevLd(f[1], v[Len(v)], c))
  ELSE DevLd(f[1], v, c)

\* global deviations applied to the whole message
Globals == {<<"none", 0>>, <<"trail0", 0>>, <<"trailkey", 0>>, <<"trailsig", 0>>, <<"lead0", 0>>}
           \cup {<<"cut", k>> : k \in 1..12} \cup {<<"swap", i>> : i \in 1..6}
DevMsg(base, cls, g) ==
  LET parts == [i \in 1..7 |-> DevField(TxSchema[i], base[i], cls[i], g[1] = "first")]
      order == IF g[1] = "swap" THEN [i \in 1..7 |-> IF i = g[2] THEN g[2] + 1 ELSE IF i = g[2] + 1 THEN g[2] ELSE i]
               ELSE [i \in 1..7 |-> i]
      m == Flat([i \in 1..7 |-> parts[order[i]]])
  IN CASE g[1] \in {"none", "swap", "first"} -> m
       [] g[1] = "trail0" -> m \o <<0>>
       [] g[1] = "trailkey" -> m \o <<64, 0>>                    \* field 8, wire type 0, value 0
       [] g[1] = "trailsig" -> m \o <<58, 1, 77>>                \* one more signature: canonical for another value
       [] g[1] = "lead0" -> <<0>> \o m
       [] g[1] = "cut" -> IF g[2] >= Len(m) THEN <<>> ELSE SubSeq(m, 1, Len(m) - g[2])

AllCanon == [i \in 1..7 |-> "canon"]
ClassTuples(maxd) ==
  UNION { { [i \in 1..7 |-> IF i \in D THEN h[i] ELSE "canon"] :
              h \in {hh \in [D -> StrClasses \cup VarClasses \cup RepClasses] : \A i \in D : hh[i] \in ClassesOf(TxSchema[i]) /\ (Cardinality(D) >= 2 => hh[i] \notin HiClasses)} }
          : D \in {DD \in SUBSET (1..7) : Cardinality(DD) <= maxd} }
DevChoices ==        \* (TLC evaluates constant definitions at start-up: keep this one empty in the other modes)
  IF Mode # "deviants" THEN {} ELSE
  {<<bi, cls, <<"none", 0>>>> : bi \in 1..NBase, cls \in ClassTuples(MaxDev)}
  \cup {<<bi, cls, g>> : bi \in 1..NBase, cls \in ClassTuples(1), g \in Globals \ {<<"none", 0>>}}
  \cup {<<bi, cls, <<"first", 0>>>> : bi \in 1..NBase, cls \in {cc \in ClassTuples(1) : cc[7] # "canon"}}

(* ------------- deviants of other strictly decoded schemas (S2) -------- *)
\* The transaction schema has no bool, uint32, sint, nested or packed field, so the clauses "0/1 booleans", shortest
\* varints inside packed arrays, nested messages that fill their length ... of the statement never meet a deviant byte
\* through it.  S2 schemas: the parameters of a transaction as a module decodes them strictly (mock.DataSetParams:
\* repeated nested + bool) and a synthetic schema with one field of every kind (harness/cmd/c08/synth.go, codec produced
\* by the tree's own generator).  One deviation per message: field index fi (0 = whole message) and class c.
S2Pair == <<F(1, "bytes"), F(2, "bytes")>>
S2Params == << <<1, "rnested", S2Pair>>, F(2, "bool") >>
SynInner == <<F(1, "uint"), F(2, "bytes")>>
SynAll == << F(1, "uint"), F(2, "uint32"), F(3, "sint"), F(4, "sint"), F(5, "bool"), F(6, "bytes"), F(7, "string"),
             <<8, "nested", SynInner>>, F(9, "ruint"), F(10, "ruint32"), F(11, "rsint"), F(12, "rbool"), F(13, "rbytes"),
             F(14, "rstring"), <<15, "rnested", SynInner>>, F(300, "uint32") >>
S2Schemas == <<S2Params, SynAll>>
S2Names == <<"mock.DataSetParams", "synth.SynthAll">>
MaxU64 == Rep(9, 127) \o <<1>>
MaxU32 == <<127, 127, 127, 127, 15>>
MinI64p1 == <<1, <<126>> \o Rep(8, 127)>>       \* -(2^63 - 1).  The minimum itself, <<1, Rep(9, 127)>>, is left to the harness
                                                 \* (int64MinProbe, VERIF_EXPERIMENTAL): the real reader decodes it as 0
S2Bases == <<
  << << << << <<1, 2>>, <<3>> >>, << <<>>, <<9, 9, 9>> >> >>, 1 >>,
     << <<>>, 0 >>,
     << << << <<>>, <<>> >> >>, 1 >>,
     << << << Rep(130, 255), <<0>> >>, << <<7>>, Rep(3, 128) >> >>, 0 >> >>,
  << << <<5>>, <<0, 1>>, <<1, <<63>>>>, <<0, <<1>>>>, 1, <<1, 2, 3>>, <<116, 111, 107>>, << <<7>>, <<9, 9>> >>,
        << <<1>>, <<0, 1>> >>, << <<>>, MaxU32 >>, << <<1, <<>>>>, <<0, <<0, 1>>>> >>, <<1, 0>>, << <<7, 7>>, <<>> >>,
        << <<97>>, <<195, 169>> >>, << << <<>>, <<>> >>, << <<1>>, <<5>> >> >>, <<3>> >>,
     << <<>>, <<>>, <<0, <<>>>>, <<0, <<>>>>, 0, <<>>, <<>>, << <<>>, <<>> >>,
        <<>>, <<>>, <<>>, <<>>, <<>>, <<>>, <<>>, <<>> >>,
     << MaxU64, MaxU32, MinI64p1, <<0, <<127, 127, 127, 127, 7>>>>, 0, Rep(130, 255), <<195, 169>>, << MaxU64, Rep(128, 7) >>,
        << MaxU64 >>, << <<0, 0, 0, 0, 8>> >>, << MinI64p1, <<0, Rep(9, 127)>> >>, <<1>>, << Rep(64, 1) >>, << <<>> >>,
        << << <<0, 1>>, <<1>> >> >>, MaxU32 >> >> >>

BoolClasses == {"padkey", "padkeymax", "wtbit2", "trunc", "wrongnum", "wrongwt", "badwt", "missing", "dup", "keyhi32", "keyhi35",
                "boolbad", "boolff", "boolpad"}
NestClasses == LdClasses \cup {"inmissing", "intrail", "inpad", "inswap", "inlenpast"}
PackClasses == LdClasses \cup {"emptypacked", "itempad", "itembad"}
Classes2Of(f) == LET k == f[2] IN
  CASE k \in {"uint", "sint"} -> VarClasses
    [] k = "uint32" -> VarClasses \cup {"over32"}
    [] k = "bool" -> BoolClasses
    [] k = "bytes" -> LdClasses
    [] k = "string" -> StrClasses
    [] k = "nested" -> NestClasses
    [] k \in Packed -> PackClasses
    [] k = "rbytes" -> RepClasses
    [] k = "rstring" -> StrClasses \cup {"emptyelem"}
    [] k = "rnested" -> NestClasses \cup {"emptyelem"}

DevBool(num, v, c) ==
  LET K == Key(num, 0) IN
  CASE c = "padkey" -> Pad(K) \o <<v>>
    [] c = "padkeymax" -> PadMax(K) \o <<v>>
    [] c = "wtbit2" -> Key(num, 4) \o <<v>>
    [] c = "trunc" -> K
    [] c = "wrongnum" -> Key(num + 16, 0) \o <<v>>
    [] c = "wrongwt" -> Key(num, 2) \o <<v>>
    [] c = "badwt" -> Key(num, 5) \o <<v>>
    [] c = "missing" -> <<>>
    [] c = "dup" -> K \o <<v>> \o K \o <<v>>
    [] c = "keyhi32" -> KeyHi32(num, 0) \o <<v>>
    [] c = "keyhi35" -> KeyHi35(num, 0) \o <<v>>
    [] c = "boolbad" -> K \o <<2>>                                \* a byte that is neither 0 nor 1
    [] c = "boolff" -> K \o <<255>>
    [] c = "boolpad" -> K \o <<v + 128, 0>>                       \* the same truth value as a two-byte varint

\* a nested message (the envelope deviates like a length-delimited field; in*: the message inside deviates, its length is right)
DevNest(num, sub, v, c) ==
  LET inner == Encode(sub, v)  n == Len(sub) IN
  CASE c = "inmissing" -> DevLd(num, Encode(SubSeq(sub, 1, n - 1), SubSeq(v, 1, n - 1)), "canon")   \* last inner field left out
    [] c = "intrail" -> DevLd(num, inner \o Key(sub[n][1] + 1, 0) \o <<0>>, "canon")             \* unknown field inside the length
    [] c = "inpad" -> DevLd(num, <<inner[1] + 128, 0>> \o Tail(inner), "canon")                  \* first inner key padded
    [] c = "inswap" -> DevLd(num, EncField(sub[2], v[2]) \o EncField(sub[1], v[1]), "canon")     \* inner fields out of order
    [] c = "inlenpast" -> IF Len(v[n]) >= 127 THEN DevLd(num, inner, "lenshort")
                          ELSE DevLd(num, SubSeq(inner, 1, Len(inner) - 1 - Len(v[n])) \o <<Len(v[n]) + 1>> \o v[n], "canon")
                                                                 \* last inner bytes field claims one byte beyond the nested message
    [] OTHER -> DevLd(num, inner, c)

ItemZero(ek) == IF ek = "bool" THEN 0 ELSE IF ek = "sint" THEN <<0, <<>>>> ELSE <<>>
ItemBad(ek, v) == IF ek = "bool" THEN <<2>> ELSE IF ek = "uint32" THEN Varint(Plus2p32(v)) ELSE Ovf10
ItemPad(ek, v) == IF ek = "bool" THEN <<v + 128, 0>> ELSE Pad(Item(ek, v))
DevPacked(num, k, v, c) ==
  LET ek == ElemKind(k)  K == Key(num, 2)
      items(n) == Flat([i \in 1..n |-> Item(ek, v[i])]) IN
  IF c = "emptypacked" THEN K \o <<0>>                           \* an empty array is written as nothing at all
  ELSE IF v = <<>> THEN (CASE c = "itempad" -> DevLd(num, ItemPad(ek, ItemZero(ek)), "canon")      \* a single deviant item
                           [] c = "itembad" -> DevLd(num, ItemBad(ek, ItemZero(ek)), "canon")
                           [] OTHER -> DevLd(num, <<>>, c))
  ELSE CASE c = "itempad" -> DevLd(num, items(Len(v) - 1) \o ItemPad(ek, v[Len(v)]), "canon")
         [] c = "itembad" -> DevLd(num, items(Len(v) - 1) \o ItemBad(ek, v[Len(v)]), "canon")
         [] OTHER -> DevLd(num, items(Len(v)), c)

Dev2Field(f, v, c) ==
  LET num == f[1]  k == f[2] IN
  IF c = "canon" THEN EncField(f, v) ELSE
  CASE k = "uint" -> DevVar(num, v, c)
    [] k = "uint32" -> IF c = "over32" THEN Key(num, 0) \o Varint(Plus2p32(v)) ELSE DevVar(num, v, c)   \* value + 2^32
    [] k = "sint" -> DevVar(num, ZigZag(v), c)
    [] k = "bool" -> DevBool(num, v, c)
    [] k \in {"bytes", "string"} -> DevLd(num, v, c)
    [] k = "nested" -> DevNest(num, f[3], v, c)
    [] k \in Packed -> DevPacked(num, k, v, c)
    [] k \in {"rbytes", "rstring"} ->
         IF c = "missing" THEN <<>>
         ELSE IF v = <<>> THEN DevLd(num, <<>>, c)
         ELSE Flat([i \in 1..(Len(v) - 1) |-> DevLd(num, v[i], "canon")]) \o DevLd(num, v[Len(v)], c)
    [] k = "rnested" ->
         IF c = "missing" \/ v = <<>> THEN <<>>
         ELSE Flat([i \in 1..(Len(v) - 1) |-> DevLd(num, Encode(f[3], v[i]), "canon")]) \o DevNest(num, f[3], v[Len(v)], c)

Globals2 == {"trail0", "trailkey", "lead0", "cut1", "cut2", "cut3", "cut5"}
Dev2Msg(si, bi, fi, c) ==
  LET s == S2Schemas[si]  v == S2Bases[si][bi]  m == Encode(s, v) IN
  IF fi = 0
  THEN CASE c = "trail0" -> m \o <<0>>
         [] c = "trailkey" -> m \o Key(s[Len(s)][1] + 1, 0) \o <<0>>
         [] c = "lead0" -> <<0>> \o m
         [] c = "cut1" -> SubSeq(m, 1, Len(m) - 1)
         [] c = "cut2" -> SubSeq(m, 1, Len(m) - 2)
         [] c = "cut3" -> SubSeq(m, 1, Len(m) - 3)
         [] c = "cut5" -> IF Len(m) >= 5 THEN SubSeq(m, 1, Len(m) - 5) ELSE <<>>
  ELSE Flat([i \in 1..Len(s) |-> IF i = fi THEN Dev2Field(s[i], v[i], c) ELSE EncField(s[i], v[i])])
Dev2Choices ==
  IF Mode # "deviants" THEN {} ELSE
  UNION { UNION { {<<si, bi, 0, g>> : g \in Globals2}
                  \cup UNION { {<<si, bi, fi, c>> : c \in Classes2Of(S2Schemas[si][fi]) \cup {"canon"}} : fi \in 1..Len(S2Schemas[si]) }
                  : bi \in 1..Len(S2Bases[si]) }
          : si \in 1..Len(S2Schemas) }

(* ------------------------------- lisk32 ------------------------------- *)
Addr(k) ==       \* a few dozen deterministic 20-byte addresses
  CASE k = 1 -> Rep(20, 0)
    [] k = 2 -> Rep(20, 255)
    [] k = 3 -> [i \in 1..20 |-> i]
    [] k \in 4..23 -> [i \in 1..20 |-> IF i = k - 3 THEN 128 ELSE 0]            \* a single bit
    [] k \in 24..43 -> [i \in 1..20 |-> IF i = k - 23 THEN 1 ELSE 255]
    [] OTHER -> [i \in 1..20 |-> (k * 37 + i * i * 11 + ((k * i) % 13)) % 256]

(* ------------------------------ behaviour ----------------------------- *)
Init == CASE Mode = "canon" -> x = <<>>
          [] Mode = "roundtrip" -> x \in UNION {{<<si, v>> : v \in Values(RtSchemas[si], 1)} : si \in 1..Len(RtSchemas)}
          [] Mode = "deviants" -> (x \in DevChoices \/ x \in Dev2Choices)
          [] Mode = "lisk32" -> x \in {<<k, 0>> : k \in 1..NAddr}
Next == \/ /\ Mode = "canon" /\ Len(x) < MaxLen
           /\ \E a \in Alphabet : x' = Append(x, a)
        \/ /\ Mode = "lisk32" /\ x[2] = 0 /\ x[1] <= NCorrupt          \* one state per corrupted position
           /\ \E pos \in 1..38 : x' = <<x[1], pos>>
Spec == Init /\ [][Next]_x

Canon ==
  Mode = "canon" =>
    \A si \in 1..Len(Schemas) :
      LET s == Schemas[si]  r == StrictParse(s, x) IN
      r.ok => /\ WellTyped(s, r.v)
              /\ Encode(s, r.v) = x
              /\ PrintT(<<"ACC", si, Len(x)>>)

RoundTrip ==
  Mode = "roundtrip" =>
    LET s == RtSchemas[x[1]]  v == x[2]  e == Encode(s, v) IN
    /\ WellTyped(s, v)
    /\ StrictAccept(s, e)
    /\ Decode(s, e) = v

Deviant ==
  (Mode = "deviants" /\ Len(x) = 3) =>
    LET m == DevMsg(TxBases[x[1]], x[2], x[3])
        r == StrictParse(TxSchema, m) IN
    /\ (r.ok => WellTyped(TxSchema, r.v) /\ Encode(TxSchema, r.v) = m)        \* accepted => canonical
    /\ (x[2] = AllCanon /\ x[3][1] = "none" => r.ok /\ r.v = TxBases[x[1]])   \* the canonical one is accepted
    /\ PrintT(<<"DV", ToJson([base |-> x[1], cls |-> x[2], glob |-> x[3][1], k |-> x[3][2], b |-> m, ok |-> B(r.ok)])>>)

Deviant2 ==
  (Mode = "deviants" /\ Len(x) = 4) =>
    LET s == S2Schemas[x[1]]
        m == Dev2Msg(x[1], x[2], x[3], x[4])
        r == StrictParse(s, m) IN
    /\ (r.ok => WellTyped(s, r.v) /\ Encode(s, r.v) = m)                    \* accepted => canonical
    /\ (x[4] = "canon" => r.ok /\ r.v = S2Bases[x[1]][x[2]])                \* the canonical one is accepted
    /\ PrintT(<<"DV2", ToJson([type |-> S2Names[x[1]], base |-> x[2], fi |-> x[3], kind |-> IF x[3] = 0 THEN "message" ELSE s[x[3]][2],
                                cls |-> x[4], b |-> m, ok |-> B(r.ok)])>>)

Lisk ==
  Mode = "lisk32" =>
    LET a == Addr(x[1])  t == L32Encode(a)  pos == x[2] IN
    IF pos = 0
    THEN /\ L32Valid(t) /\ L32Decode(t) = a
         /\ PrintT(<<"L32", ToJson([addr |-> a, sym |-> t, charset |-> L32Charset])>>)
    ELSE LET ok == [sy \in 1..32 |-> L32Valid([t EXCEPT ![pos] = sy - 1])] IN
         /\ \A sy \in 1..32 : ok[sy] = (sy - 1 = t[pos])                   \* every single-symbol error is detected
         /\ PrintT(<<"L32C", ToJson([sym |-> t, pos |-> pos, ok |-> [sy \in 1..32 |-> B(ok[sy])]])>>)

\* strings used by the deviants with the classification the specification gives them (checked by the harness)
StrSamples == {<<255>>, <<195, 40>>, <<192, 175>>, <<101, 204, 129>>, <<226, 132, 171>>, <<65, 204, 138>>, <<195, 169>>,
               <<116, 111, 107>>, <<>>, <<240, 159, 152, 128>>, <<237, 160, 128>>, <<244, 144, 128, 128>>}
ASSUME \A st \in StrSamples : PrintT(<<"STR", ToJson([b |-> st, utf8 |-> B(Utf8Valid(st)), nfc |-> B(IsNFC(st))])>>)
\* the S2 schemas as the specification sees them: the harness compares them with the schemas of the real types (reflection)
ASSUME Mode = "deviants" => \A i \in 1..Len(S2Schemas) : PrintT(<<"SCH", ToJson([type |-> S2Names[i], schema |-> S2Schemas[i]])>>)
=============================================================================
