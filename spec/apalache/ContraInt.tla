----------------------------- MODULE ContraInt -----------------------------
(***************************************************************************)
(* C07, unbounded: the algebraic facts about header contradiction that     *)
(* ForkChoice.tla checks by enumeration for fields 0..5 are discharged     *)
(* here by Apalache (SMT) for ALL natural field values: the state is one   *)
(* pair of headers chosen nondeterministically by Init, the invariant is   *)
(* the conjunction of the facts (a proof obligation of length 0).          *)
(* Contra / Succ / Better are the same definitions as in LiskBFT.tla and   *)
(* ForkChoice.tla, written over plain integers for the type checker.       *)
(***************************************************************************)
EXTENDS Integers

VARIABLES
  \* @type: Int;
  h1,
  \* @type: Int;
  g1,
  \* @type: Int;
  p1,
  \* @type: Int;
  v1,
  \* @type: Int;
  h2,
  \* @type: Int;
  g2,
  \* @type: Int;
  p2,
  \* @type: Int;
  v2,
  \* @type: Int;
  h3,
  \* @type: Int;
  p3

Max2(a, b) == IF a >= b THEN a ELSE b

\* operational form (contradiction.go / LiskBFT.tla Contra): headers (h, mhg = g, mhp = p, gen = v)
ContraOp(ah, ag, ap, av, bh, bg, bp, bv) ==
  LET swap == \/ ag > bg
              \/ (ag = bg /\ ap > bp)
              \/ (ag = bg /\ ap = bp /\ ah > bh)
      eh == IF swap THEN bh ELSE ah   eg == IF swap THEN bg ELSE ag   ep == IF swap THEN bp ELSE ap
      lh == IF swap THEN ah ELSE bh   lg == IF swap THEN ag ELSE bg   lp == IF swap THEN ap ELSE bp
  IN /\ av = bv
     /\ \/ (ep = lp /\ eh >= lh)
        \/ eh > lg
        \/ ep > lp

Succ(ah, ag, ap, bh, bg, bp) ==
  /\ bg >= Max2(ah, ag)
  /\ bp >= ap
  /\ (bp > ap \/ bh > ah)

ContraDecl(ah, ag, ap, av, bh, bg, bp, bv) == av = bv /\ ~Succ(ah, ag, ap, bh, bg, bp) /\ ~Succ(bh, bg, bp, ah, ag, ap)

\* LIP-0014 order on (maxHeightPrevoted, height)
Better(bp, bh, ap, ah) == bp > ap \/ (bp = ap /\ bh > ah)

Init ==
  /\ h1 \in Nat /\ g1 \in Nat /\ p1 \in Nat /\ v1 \in {1, 2}
  /\ h2 \in Nat /\ g2 \in Nat /\ p2 \in Nat /\ v2 \in {1, 2}
  /\ h3 \in Nat /\ p3 \in Nat
Next == UNCHANGED <<h1, g1, p1, v1, h2, g2, p2, v2, h3, p3>>

\* operational = declarative, symmetric, never across generators, equal triples of one generator contradict
PairFacts ==
  /\ ContraOp(h1, g1, p1, v1, h2, g2, p2, v2) = ContraDecl(h1, g1, p1, v1, h2, g2, p2, v2)
  /\ ContraOp(h1, g1, p1, v1, h2, g2, p2, v2) = ContraOp(h2, g2, p2, v2, h1, g1, p1, v1)
  /\ (v1 # v2 => ~ContraOp(h1, g1, p1, v1, h2, g2, p2, v2))
  /\ ((h1 = h2 /\ g1 = g2 /\ p1 = p2 /\ v1 = v2) => ContraOp(h1, g1, p1, v1, h2, g2, p2, v2))

\* a legitimate successor is strictly better in the fork-choice order or at least not worse, and Better is a strict total preorder
OrderFacts ==
  /\ ~Better(p1, h1, p1, h1)
  /\ (Better(p2, h2, p1, h1) => ~Better(p1, h1, p2, h2))
  /\ (Better(p2, h2, p1, h1) /\ Better(p3, h3, p2, h2) => Better(p3, h3, p1, h1))
  /\ (Better(p2, h2, p1, h1) \/ Better(p1, h1, p2, h2) \/ (p1 = p2 /\ h1 = h2))
  /\ (Succ(h1, g1, p1, h2, g2, p2) => Better(p2, h2, p1, h1))

\* an honest generator (claims everything it generated, only moves to better tips) never contradicts itself:
\* header 2 forged later on a tip not worse than the one header 1 was forged on
HonestFacts ==
  (v1 = v2 /\ g2 >= Max2(h1, g1) /\ h2 > g2 /\ h1 > g1 /\ (p2 > p1 \/ (p2 = p1 /\ h2 > h1)))
     => ~ContraOp(h1, g1, p1, v1, h2, g2, p2, v2)

\* ... and a later, higher header of the same generator that does NOT acknowledge the earlier block (claims less than its
\* height) always contradicts it - the contradicting blocks offered to the real Executer by RecvTime.tla ("lying")
LyingFacts ==
  (v1 = v2 /\ g1 < h1 /\ h2 > h1 /\ p2 >= p1 /\ g2 < h1) => ContraOp(h1, g1, p1, v1, h2, g2, p2, v2)

\* the genesis rule of HeaderHasPriority / Synced (ForkChoice.tla HasPriority, ver = 0): a chain (h1, p1) that a genesis
\* header at height h2 has priority over stays below every higher genesis height too, and one that reaches above it never
GenesisPriority(hh, h, p) == h <= hh /\ p <= hh
GenesisFacts ==
  /\ (GenesisPriority(h2, h1, p1) /\ h3 >= h2 => GenesisPriority(h3, h1, p1))
  /\ (h1 > h2 => ~GenesisPriority(h2, h1, p1))

Inv == PairFacts /\ OrderFacts /\ HonestFacts /\ LyingFacts /\ GenesisFacts
=============================================================================
