------------------------------ MODULE WireFuzz ------------------------------
(***************************************************************************)
(* C09: untrusted input never crashes or hangs the node.                   *)
(*                                                                         *)
(* Two families of cases, each ONE state of the model:                     *)
(*                                                                         *)
(*  wire   <<base, path, class, cut>>: the valid message `base` (schema,   *)
(*         abstract value and bytes exported by the harness from the real  *)
(*         node state, read from BasesFile) with the field at `path`       *)
(*         (field indexes, descending through nested / repeated nested     *)
(*         messages, enclosing length prefixes recomputed) encoded in      *)
(*         deviation class `class` (Wire.tla grammar: padded / overflowing *)
(*         / unterminated varints, truncation inside the field, wrong      *)
(*         field number or wire type, missing / duplicated field, length   *)
(*         past the end / huge / short, invalid UTF-8, non-NFC, illegal    *)
(*         bool byte, canonical encodings of other values: empty, shorter, *)
(*         longer, zero, maximal), the whole message then truncated to     *)
(*         `cut` bytes (0 = not truncated) at the boundaries of the        *)
(*         deviant field, or (cut < 0) the innermost enclosing NESTED      *)
(*         message truncated there with all length prefixes consistent;    *)
(*         plus message-level deviations (truncation of the *)
(*         valid message at EVERY offset, trailing / leading bytes,        *)
(*         doubled message, adjacent fields swapped).                      *)
(*  shape  <<0, parameters, family, 0>>: argument shapes of the verifiers  *)
(*         (aggregation bitmap vs key list, BLS / Ed25519 key and          *)
(*         signature lengths and non-points, Merkle proofs with too few /  *)
(*         too many sibling hashes, indexes 0 / 1 / out of range, size 0 / *)
(*         huge, query key length /= keyLength, bitmap longer than key,    *)
(*         query count mismatch).                                          *)
(*                                                                         *)
(*  scen   <<0, parameters, family, 0>> (tag SC, constant ScenOn): cases that *)
(*         need state, a second node or several goroutines:                *)
(*         syncc   the synchronisation CLIENT against a scripted peer      *)
(*                 (answers to getLastBlock / getHighestCommonBlock /      *)
(*                 getBlocksFromId: honest, empty, garbage, unknown or     *)
(*                 non-32-byte ids, below the finalized height, height     *)
(*                 2^32-1, the same block for ever, descending / gapped    *)
(*                 heights, never answering), fast sync and block sync;    *)
(*         commits admitted single commits KEPT in the pool (worlds with a *)
(*                 validator joining / leaving inside the commit window),  *)
(*                 then GetAggregateCommit, broadcastCertificate, the next *)
(*                 block carrying the aggregate;                           *)
(*         txpool  nonce ladders of peers' transactions kept in a small    *)
(*                 pool, the application answering Ok / Invalid / Pending  *)
(*                 / error now or later, then reorg, GetProcessable;       *)
(*         burst   16 goroutines with valid and malformed inputs into the  *)
(*                 stateful network entry points at the same time;         *)
(*         amp     a repeated field of a valid message repeated 10^k times *)
(*                 (growth of time and memory with the input size).        *)
(*         Specified outcome of each: the call RETURNS (ok | reject), the  *)
(*         node is alive afterwards, resources are given back.             *)
(*                                                                         *)
(* THE PROPERTY (total-function view).  The reference decoder StrictParse  *)
(* and the shape predicate Nominal map EVERY case to ok | reject: there is *)
(* no case with "no result".  The implementation must do the same: each    *)
(* entry point returns (a value, an error or false) for every case - no    *)
(* panic, no call that does not return, no allocation beyond c*|input|.    *)
(* The harness (harness/cmd/c09) gives every printed case to every entry   *)
(* point that takes the schema and checks exactly that; the spec's verdict *)
(* is compared with the strict decoders for information only (C08 owns     *)
(* agreement).                                                             *)
(***************************************************************************)
EXTENDS Wire, Json, Integers

CONSTANTS BasesFile,      \* JSON written by `c09 bases`: [bases |-> <<[name, type, schema, value, bytes]>>, ...]
          WireOn,         \* enumerate wire cases
          ShapesOn,       \* enumerate shape cases
          MaxPathDepth,   \* paths deeper than this are not deviated (their enclosing fields still are)
          ScenOn,         \* enumerate scenario cases (tag SC; run by `c09 scen`)
          ScenFull        \* scenario families as full products (thorough tier) instead of one deviation at a time

VARIABLE x
B(c) == IF c THEN 1 ELSE 0

Bases == JsonDeserialize(BasesFile).bases
NB == Len(Bases)

(* ------------------------------ deviations ----------------------------- *)
Rep(n, c) == [i \in 1..n |-> c]
Pad(v) == [v EXCEPT ![Len(v)] = @ + 128] \o <<0>>          \* same number, one group too many
Ovf10 == Rep(9, 255) \o <<2>>                              \* 10 bytes, 10th above 1: beyond 2^64
Ovf10b == Rep(9, 255) \o <<3>>
Ovf11 == Rep(10, 128) \o <<1>>                             \* no termination within 10 bytes
Huge == Rep(9, 255) \o <<1>>                               \* 2^64-1, a legal varint
Big31 == <<128, 128, 128, 128, 8>>                         \* 2^31
Big32 == <<128, 128, 128, 128, 16>>                        \* 2^32
Big63 == Rep(9, 128) \o <<1>>                              \* 2^63
Big62 == Rep(8, 128) \o <<64>>                             \* 2^62
Big63p5 == <<133>> \o Rep(8, 128) \o <<1>>                 \* 2^63 + 5

KeyClasses == {"canon", "padkey", "wrongnum", "wrongwt", "badwt", "key0", "keyhuge", "missing", "dup", "keyonly"}
VarClasses == KeyClasses \cup {"padval", "ovf10", "ovf10b", "ovf11", "trunc", "contbit", "v-zero", "v-one", "v-max", "v-2p32", "v-2p63"}
BoolClasses == KeyClasses \cup {"two", "big", "padval", "v-flip"}
LdClasses == KeyClasses \cup {"padlen", "ovf10", "ovf10b", "ovf11", "trunc", "lenpast", "lenhuge", "len2p31", "len2p32", "len2p63",
                              "lenshort", "lenrest", "v-empty", "v-short", "v-long", "v-flip"}
StrClasses == LdClasses \cup {"badutf8", "badutf8b", "overlong", "nonnfc", "nfcok"}
RepClasses == LdClasses \cup {"emptyelem"}
\* a PACKED array (wire type 2 over varints / bools): the length prefix is the only thing a decoder knows about the number of
\* items before it reads them - prefixes that announce far more than is present (a decoder that sizes its result from the
\* prefix allocates what the peer asks for): one MiB more, 2^31, 2^62, 2^63 + 5, 2^64 - 1 (the last three also as Ld classes above)
PackClasses == LdClasses \cup {"itempad", "itemovf", "itemcont", "lenp1m", "len2p62", "len2p63p5"}

ClassesOfKind(k) ==
  CASE k \in {"uint", "uint32", "sint"} -> VarClasses
    [] k = "bool" -> BoolClasses
    [] k = "string" -> StrClasses
    [] k \in {"bytes", "nested"} -> LdClasses
    [] k \in Repeated -> RepClasses
    [] k \in Packed -> PackClasses

\* the key part shared by every kind; rest = what follows the key in the canonical encoding
DevKey(num, wt, rest, c) ==
  LET K == Key(num, wt) IN
  CASE c = "canon" -> K \o rest                                   \* the valid encoding (its truncations are the point)
    [] c = "padkey" -> Pad(K) \o rest
    [] c = "wrongnum" -> Key(num + 16, wt) \o rest
    [] c = "wrongwt" -> Key(num, 2 - wt) \o rest
    [] c = "badwt" -> Key(num, 5 - (wt \div 2) * 4) \o rest     \* wire type 5 (for 0) / 1 (for 2)
    [] c = "key0" -> Key(0, wt) \o rest
    [] c = "keyhuge" -> Huge \o rest
    [] c = "missing" -> <<>>
    [] c = "dup" -> K \o rest \o K \o rest
    [] c = "keyonly" -> K                                         \* nothing after the key

DevVar(num, v, c) ==
  LET K == Key(num, 0)  V == Varint(v) IN
  IF c \in KeyClasses THEN DevKey(num, 0, V, c) ELSE
  CASE c = "padval" -> K \o Pad(V)
    [] c = "ovf10" -> K \o Ovf10
    [] c = "ovf10b" -> K \o Ovf10b
    [] c = "ovf11" -> K \o Ovf11
    [] c = "trunc" -> K \o SubSeq(V, 1, Len(V) - 1)                 \* last byte of the value missing
    [] c = "contbit" -> K \o [V EXCEPT ![Len(V)] = @ + 128]          \* continuation bit on the last byte: runs into what follows
    [] c = "v-zero" -> K \o <<0>>
    [] c = "v-one" -> K \o <<1>>
    [] c = "v-max" -> K \o Huge
    [] c = "v-2p32" -> K \o Big32
    [] c = "v-2p63" -> K \o Big63

DevBool(num, v, c) ==
  LET K == Key(num, 0) IN
  IF c \in KeyClasses THEN DevKey(num, 0, <<v>>, c) ELSE
  CASE c = "two" -> K \o <<2>>
    [] c = "big" -> K \o <<255>>
    [] c = "padval" -> K \o <<128 + v, 0>>
    [] c = "v-flip" -> K \o <<1 - v>>

FlipFirst(d) == IF d = <<>> THEN <<1>> ELSE [d EXCEPT ![1] = (@ + 128) % 256]

DevLd(num, d, c) ==
  LET K == Key(num, 2)  L == Varint(NatToNum(Len(d))) IN
  IF c \in KeyClasses THEN DevKey(num, 2, L \o d, c) ELSE
  CASE c = "padlen" -> K \o Pad(L) \o d
    [] c = "ovf10" -> K \o Ovf10 \o d
    [] c = "ovf10b" -> K \o Ovf10b \o d
    [] c = "ovf11" -> K \o Ovf11 \o d
    [] c = "trunc" -> K \o L \o (IF d = <<>> THEN <<>> ELSE SubSeq(d, 1, Len(d) - 1))
    [] c = "lenpast" -> K \o Varint(NatToNum(Len(d) + 100)) \o d
    [] c = "lenhuge" -> K \o Huge \o d
    [] c = "len2p31" -> K \o Big31 \o d
    [] c = "len2p32" -> K \o Big32 \o d
    [] c = "len2p63" -> K \o Big63 \o d
    [] c = "lenp1m" -> K \o Varint(NatToNum(Len(d) + 1048576)) \o d
    [] c = "len2p62" -> K \o Big62 \o d
    [] c = "len2p63p5" -> K \o Big63p5 \o d
    [] c = "lenshort" -> K \o (IF d = <<>> THEN <<0>> ELSE Varint(NatToNum(Len(d) - 1))) \o d
    [] c = "lenrest" -> K \o Varint(NatToNum(Len(d) + 1)) \o d      \* one more than there is: eats the next key
    [] c = "v-empty" -> K \o <<0>>
    [] c = "v-short" -> IF d = <<>> THEN K \o <<0>> ELSE K \o LenPrefixed(SubSeq(d, 1, Len(d) - 1))
    [] c = "v-long" -> K \o LenPrefixed(d \o <<0>>)
    [] c = "v-flip" -> K \o LenPrefixed(FlipFirst(d))
    [] c = "badutf8" -> K \o <<1, 255>>
    [] c = "badutf8b" -> K \o <<2, 195, 40>>
    [] c = "overlong" -> K \o <<2, 192, 175>>
    [] c = "nonnfc" -> K \o <<3, 101, 204, 129>>
    [] c = "nfcok" -> K \o <<2, 195, 169>>
    [] c = "emptyelem" -> K \o L \o d \o K \o <<0>>
    [] c = "itempad" -> K \o LenPrefixed(d \o <<128, 0>>)
    [] c = "itemovf" -> K \o LenPrefixed(d \o Ovf10)
    [] c = "itemcont" -> K \o LenPrefixed(d \o <<255>>)              \* last item never terminates inside the array

ItemNum(k, v) == IF k = "sint" THEN ZigZag(v) ELSE v
PackedData(k, v) == Flat([i \in 1..Len(v) |-> Item(ElemKind(k), v[i])])
ElemData(k, sub, e) == IF k = "rnested" THEN Encode(sub, e) ELSE e

\* the deviant encoding of field f with value v
DevField(f, v, c) ==
  LET num == f[1]  k == f[2] IN
  CASE k \in {"uint", "uint32", "sint"} -> DevVar(num, ItemNum(k, v), c)
    [] k = "bool" -> DevBool(num, v, c)
    [] k \in {"bytes", "string"} -> DevLd(num, v, c)
    [] k = "nested" -> DevLd(num, Encode(f[3], v), c)
    [] k \in Packed -> DevLd(num, PackedData(k, v), c)
    [] k \in Repeated ->
         IF c = "missing" THEN <<>>
         ELSE IF v = <<>> THEN DevLd(num, <<>>, c)                                  \* a deviant single element
         ELSE Flat([i \in 1..(Len(v) - 1) |-> Key(num, 2) \o LenPrefixed(ElemData(k, f[3], v[i]))])
              \o DevLd(num, ElemData(k, f[3], v[Len(v)]), c)                         \* the last element deviates

(* ------------------------------ paths ---------------------------------- *)
\* A path is a sequence of field indexes; a step through a repeated nested field goes into its LAST element.
RECURSIVE Paths(_, _, _)
Paths(s, v, depth) ==
  UNION { {<<i>>} \cup
          (IF depth >= MaxPathDepth THEN {}
           ELSE IF s[i][2] = "nested" THEN {<<i>> \o p : p \in Paths(s[i][3], v[i], depth + 1)}
           ELSE IF s[i][2] = "rnested" /\ v[i] # <<>> THEN {<<i>> \o p : p \in Paths(s[i][3], v[i][Len(v[i])], depth + 1)}
           ELSE {}) : i \in 1..Len(s) }

RECURSIVE FieldAt(_, _)
FieldAt(s, p) == IF Len(p) = 1 THEN s[p[1]] ELSE FieldAt(s[p[1]][3], Tail(p))

\* [b |-> bytes, at |-> number of bytes before the deviant field, n |-> length of the deviant field]
\* ic > 0: the innermost enclosing message is cut at the ic-th boundary of the deviant field (before it, 1 / 2 bytes
\* into it, in its middle, before its last byte, right after it) and every enclosing length prefix is recomputed -
\* a message whose NESTED message ends early while all lengths are consistent.
RECURSIVE DevAt(_, _, _, _, _)
DevAt(s, v, p, c, ic) ==
  LET i == p[1]
      f == s[i]
      pre == Flat([j \in 1..(i - 1) |-> EncField(s[j], v[j])])
      post == Flat([j \in 1..(Len(s) - i) |-> EncField(s[i + j], v[i + j])])
  IN IF Len(p) = 1
     THEN LET d == DevField(f, v[i], c)
              whole == pre \o d \o post
              cp == <<Len(pre), Len(pre) + 1, Len(pre) + 2, Len(pre) + (Len(d) \div 2), Len(pre) + Len(d) - 1, Len(pre) + Len(d)>>
          IN [b |-> IF ic = 0 THEN whole ELSE SubSeq(whole, 1, Min2(cp[ic], Len(whole))), at |-> Len(pre), n |-> Len(d)]
     ELSE LET rep == f[2] = "rnested"
              inner == IF rep THEN DevAt(f[3], v[i][Len(v[i])], Tail(p), c, ic) ELSE DevAt(f[3], v[i], Tail(p), c, ic)
              head == IF rep THEN Flat([e \in 1..(Len(v[i]) - 1) |-> Key(f[1], 2) \o LenPrefixed(Encode(f[3], v[i][e]))]) ELSE <<>>
              K == Key(f[1], 2)
              L == Varint(NatToNum(Len(inner.b)))
          IN [b |-> pre \o head \o K \o L \o inner.b \o post,
              at |-> Len(pre) + Len(head) + Len(K) + Len(L) + inner.at, n |-> inner.n]

\* message-level deviations of base bi
Globals == {"canon", "trail0", "trailkey", "lead0", "double"}
GlobalMsg(bi, g, k) ==
  LET m == Bases[bi].bytes  s == Bases[bi].schema  v == Bases[bi].value IN
  CASE g = "canon" -> m
    [] g = "trail0" -> m \o <<0>>
    [] g = "trailkey" -> m \o <<8, 0>>
    [] g = "lead0" -> <<0>> \o m
    [] g = "double" -> m \o m
    [] g = "swap" -> LET o == [i \in 1..Len(s) |-> IF i = k THEN k + 1 ELSE IF i = k + 1 THEN k ELSE i]
                     IN Flat([i \in 1..Len(s) |-> EncField(s[o[i]], v[o[i]])])

(* ------------------------------ wire cases ----------------------------- *)
\* x = <<bi, path, class, cut>>;  path = <<>> for message-level deviations (then class is the global, and for
\* "swap" the cut component carries the index of the first swapped field, negated)
Untruncated(bi, p, c) == IF p = <<>> THEN [b |-> GlobalMsg(bi, c, 0), at |-> 0, n |-> 0]
                         ELSE DevAt(Bases[bi].schema, Bases[bi].value, p, c, 0)
InnerCuts(p, c) == IF Len(p) >= 2 /\ c = "canon" THEN 1..6 ELSE {}
CutSet(bi, p, c) ==
  IF p = <<>> THEN {}                                                      \* (see CutNodes)
  ELSE LET r == DevAt(Bases[bi].schema, Bases[bi].value, p, c, 0)
       IN {r.at, r.at + 1, r.at + 2, r.at + 3, r.at + (r.n \div 2), r.at + r.n - 1, r.at + r.n} \cap (1..(Len(r.b) - 1))

\* Search tree (so that TLC's workers share the enumeration): root -> one node per (base, path) and per
\* (shape family, first parameter) -> the cases of that node -> their truncations.
WireNodes == IF ~WireOn THEN {} ELSE
  UNION { {<<bi, p, "node", 0>> : p \in Paths(Bases[bi].schema, Bases[bi].value, 1) \cup {<<>>}} : bi \in 1..NB }
\* the valid message cut at EVERY offset, in chunks of 24 offsets per search node
Chunk == 24
CutNodes(bi) == {<<bi, <<>>, "cutnode", j>> : j \in 1..((Len(Bases[bi].bytes) + Chunk - 2) \div Chunk)}
CutsOfNode(bi, j) == {<<bi, <<>>, "canon", k>> : k \in ((j - 1) * Chunk + 1)..Min2(j * Chunk, Len(Bases[bi].bytes) - 1)}
WireCasesOf(bi, p) ==
  IF p = <<>> THEN {<<bi, <<>>, g, 0>> : g \in Globals} \cup {<<bi, <<>>, "swap", 0 - k>> : k \in 1..(Len(Bases[bi].schema) - 1)}
                   \cup CutNodes(bi)
  ELSE {<<bi, p, c, 0>> : c \in ClassesOfKind(FieldAt(Bases[bi].schema, p)[2])}

WireMsg(c) ==
  IF c[2] = <<>> /\ c[3] = "swap" THEN GlobalMsg(c[1], "swap", 0 - c[4])
  ELSE IF c[4] < 0 THEN DevAt(Bases[c[1]].schema, Bases[c[1]].value, c[2], c[3], 0 - c[4]).b
  ELSE LET m == Untruncated(c[1], c[2], c[3]).b IN IF c[4] > 0 THEN SubSeq(m, 1, c[4]) ELSE m

(* ------------------------------ shape cases ---------------------------- *)
\* Codes (the harness concretises them, cmd/c09/shapes.go):
\*  KeyShapes 0 valid, 1 empty, 2 one byte, 3 47 bytes, 4 49 bytes, 5 96 bytes, 6 48 zero bytes, 7 point at infinity,
\*            8 not on the curve, 9 compression flag cleared
\*  SigShapes 0 valid, 1 empty, 2 one byte, 3 95 bytes, 4 97 bytes, 5 48 bytes, 6 96 zero bytes, 7 infinity, 8 not on curve
KeyShapes == 0..9
SigShapes == 0..8
\* agg  <<keys, bitmapLen, keyShape, sigShape, fill>>  keys in the list (the node has 9 validators);
\*      bitmapLen 0 empty, 1 one byte short, 2 exact, 3 one byte long, 4 64 bytes; fill 0 real bits, 1 all ones, 2 all zero
AggCases == {<<nk, bl, ks, ss, fl>> : nk \in {0, 1, 8, 9}, bl \in 0..4, ks \in KeyShapes, ss \in SigShapes, fl \in 0..2}
AggNominal(p) == p = <<9, 2, 0, 0, 0>>
\* bls1 <<keyShape, sigShape, msgLen code>>   (single signature / proof of possession)
Bls1Cases == {<<ks, ss, ml>> : ks \in KeyShapes, ss \in SigShapes, ml \in 0..3}
Bls1Nominal(p) == p[1] = 0 /\ p[2] = 0
\* ed   <<public key length code (32,0,1,31,33,64), signature length code (64,0,1,63,65,128), msgLen code>>
EdCases == {<<pl, sl, ml>> : pl \in 0..5, sl \in 0..5, ml \in 0..3}
EdNominal(p) == p[1] = 0 /\ p[2] = 0
\* rmt  <<size code (0,1,2,3,5,8,13,2^32,2^63,2^64-1), index shape (0 valid, 1 all zero, 2 all one (root), 3 beyond the tree,
\*        4 2^64-1, 5 duplicate, 6 one more than queries, 7 none, 8 bit 32 set), sibling hashes (0 exact, 1 none, 2 one
\*        fewer, 3 one more, 4 five more), hash length (32, 0, 31, 33), queries (0 as proved, 1 none, 2 one more)>>
RmtCases == {<<sz, ix, sb, hl, nq>> : sz \in 0..9, ix \in 0..8, sb \in 0..4, hl \in 0..3, nq \in 0..2}
RmtNominal(p) == p[1] \in 1..6 /\ p[2] = 0 /\ p[3] = 0 /\ p[4] = 0 /\ p[5] = 0
\* smt  <<query key length (0 exact, 1 shorter, 2 longer, 3 empty), proof key length (same codes), bitmap (0 as proved,
\*        1 empty, 2 leading zero byte, 3 one byte longer than the key, 4 1000 bytes, 5 key length all ones), sibling
\*        hashes (0 exact, 1 none, 2 one fewer, 3 one more), query count (0 equal, 1 one more key, 2 one more proof query,
\*        3 none), value (0 as proved, 1 empty), keyLength argument (0 right, 1 zero, 2 thirty-two)>>
SmtCases == {<<qk, pk, bm, sb, qc, vl, kl>> : qk \in 0..3, pk \in 0..3, bm \in 0..5, sb \in 0..3, qc \in 0..3, vl \in 0..1, kl \in 0..2}
SmtNominal(p) == \A i \in 1..7 : p[i] = 0
\* rmtrw <<node index code (0,1,2,5,2^32,2^64-1), append path length code (0,1,2,3,40), right witness length code>>
RwCases == {<<ix, ap, rw>> : ix \in 0..5, ap \in 0..4, rw \in 0..4}

\* smtq <<geometry (0: 4-byte keys, 6 leaves; 1: 32-byte keys, 2 000 leaves), query shape (0 as proved, 1 one proof query
\*        twice with its key twice, 2 the same with another bitmap, 3 the same with another value, 4 two proof queries whose
\*        bitmaps name the same node (a key and its sibling-prefix twin), 5 a query key twice but its proof query once,
\*        6 all proof queries identical, 7 proof queries in reverse order), position of the edited query (0 first, 1 last,
\*        2 middle), query keys (0 the caller's, 1 taken from the - possibly edited - proof)>>
SmtqCases == {<<g, q, ps, kd>> : g \in 0..1, q \in 0..7, ps \in 0..2, kd \in 0..1}
SmtqNominal(p) == p[2] = 0

Families == <<"agg", "bls1", "ed", "rmt", "smt", "rmtrw", "smtq">>
FamCases(fam) == CASE fam = "agg" -> AggCases [] fam = "bls1" -> Bls1Cases [] fam = "ed" -> EdCases
                   [] fam = "rmt" -> RmtCases [] fam = "smt" -> SmtCases [] fam = "rmtrw" -> RwCases [] fam = "smtq" -> SmtqCases
ShapeNodes == IF ~ShapesOn THEN {} ELSE
  UNION { {<<0, <<f, q[1]>>, "node", 0>> : q \in FamCases(Families[f])} : f \in 1..Len(Families) }
ShapeCasesOf(f, a) == {<<0, q, Families[f], 0>> : q \in {qq \in FamCases(Families[f]) : qq[1] = a}}

Nominal(fam, p) ==
  CASE fam = "agg" -> AggNominal(p) [] fam = "bls1" -> Bls1Nominal(p) [] fam = "ed" -> EdNominal(p)
    [] fam = "rmt" -> RmtNominal(p) [] fam = "smt" -> SmtNominal(p) [] fam = "rmtrw" -> FALSE
    [] fam = "smtq" -> SmtqNominal(p)

(* ------------------------------ scenario cases ------------------------- *)
Count(p, from) == Cardinality({i \in from..Len(p) : p[i] # 0})
\* syncc <<mode (0 fast sync, 1 block sync), answer to getLastBlock (0 honest, 1 empty, 2 garbage, 3 height 2^32-1 re-signed,
\*         4 never, 5 a block without priority, 6 error), answer to getHighestCommonBlock (0 honest, 1 none, 2 unknown 32-byte
\*         id, 3 5-byte id, 4 33-byte id, 5 below the finalized height, 6 the node's own tip, 7 never, 8 garbage, 9 error),
\*         answer to getBlocksFromId (0 honest, 1 encoded empty list, 2 empty list in a non-empty encoding, 3 the same block
\*         for ever, 4 descending one per answer, 5 gapped, 6 never, 7 garbage, 8 error, 9 all but the last, then empty)>>
\* fast sync never asks for the last block.  One deviation at a time plus the pairs that reach the download with a foreign
\* common block / an unreachable last block; ScenFull: the product.
SyncAll == {<<m, l, h, b>> : m \in 0..1, l \in 0..6, h \in 0..9, b \in 0..9}
SyncPairs == {<<0, 0, 6, 3>>, <<1, 0, 6, 3>>, <<0, 0, 6, 1>>, <<1, 3, 0, 1>>, <<1, 3, 0, 3>>, <<1, 3, 0, 6>>}
SyncCases == {c \in SyncAll : (c[1] = 0 => c[2] = 0) /\ (ScenFull \/ Count(c, 2) <= 1 \/ c \in SyncPairs)}
SyncNominal(p) == Count(p, 2) = 0
\* commits <<world (0 one parameter set, 1 a validator JOINS inside the commit window, 2 a validator LEAVES inside it),
\*           signers (0 three of the four permanent validators = the threshold, 1 two of them, 2 only the validator that joins /
\*           leaves, 3 three permanent ones and that validator, 4 all), heights (0 the height GetAggregateCommit looks at first,
\*           1 the precommitted height, 2 the first height of the new parameters, 3 height 1, 4 above the precommitted height,
\*           5 every height of the window), defect (0 none, 1 one signature over another message, 2 one commit for another block
\*           id, 3 every commit twice in one message, 4 the messages delivered twice)>>
CommitAll == {<<w, sg, h, d>> : w \in 0..2, sg \in 0..4, h \in 0..5, d \in 0..4}
CommitCases == {c \in CommitAll : ScenFull \/ c[4] = 0 \/ (c[2] \in {0, 3} /\ c[3] \in {0, 5})}
CommitNominal(p) == p[2] = 0 /\ p[3] = 0 /\ p[4] = 0
\* txpool <<ladder (0 nonces ascending, 1 descending, 2 with a gap, 3 around 2^64-1, 4 replacements of one nonce, 5 more
\*          senders than the pool holds, 6 more of one sender than a sender may hold, 7 two senders interleaved with
\*          duplicates), application (0 Ok, 1 Invalid for one, 2 Pending for all, 3 error for one, 4 / 5 / 6 Ok now and Invalid
\*          later for the first / middle / last, 7 error later for the middle one)>>
TxpoolCases == {<<l, a>> : l \in 0..7, a \in 0..7}
TxpoolNominal(p) == p[1] = 0 /\ p[2] = 0
\* burst <<entry group (0 request stream handler, 1 response stream handler, 2 gossip block / single commits, 3 single
\*         commit validator, 4 all of them), inputs (0 valid only, 1 malformed only, 2 mixed)>>
BurstCases == {<<g, v>> : g \in 0..4, v \in 0..2}
ScenFamilies == <<"syncc", "commits", "txpool", "burst">>
ScenCasesOf(fam) == CASE fam = "syncc" -> SyncCases [] fam = "commits" -> CommitCases [] fam = "txpool" -> TxpoolCases
                      [] fam = "burst" -> BurstCases
ScenNodes == IF ~ScenOn THEN {} ELSE {<<0, <<f>>, "snode", 0>> : f \in 1..Len(ScenFamilies)}
\* amp <<base, path to a repeated / packed field, exponent>>: the LAST element of that field repeated 10^exponent times
RepPaths(bi) == {p \in Paths(Bases[bi].schema, Bases[bi].value, 1) : FieldAt(Bases[bi].schema, p)[2] \in Repeated \cup Packed}
AmpNodes == IF ~ScenOn THEN {} ELSE {<<bi, <<>>, "anode", 0>> : bi \in {b \in 1..NB : RepPaths(b) # {}}}
AmpCasesOf(bi) == {<<bi, p, "amp", e>> : p \in RepPaths(bi), e \in 2..(IF ScenFull THEN 5 ELSE 4)}
IsScen(c) == c[3] = "amp" \/ \E f \in 1..Len(ScenFamilies) : ScenFamilies[f] = c[3]
ScenNominal(fam, p) == CASE fam = "syncc" -> SyncNominal(p) [] fam = "commits" -> CommitNominal(p) [] fam = "txpool" -> TxpoolNominal(p)
                         [] fam = "burst" -> TRUE

(* ------------------------------ verdicts ------------------------------- *)
\* the total function: every case has a verdict
Verdict(c) ==
  IF c[3] = "amp" THEN "reject"                   \* (whether a decoder accepts 10^k elements is not the point: it answers)
  ELSE IF IsScen(c) THEN (IF ScenNominal(c[3], c[2]) THEN "ok" ELSE "reject")
  ELSE IF c[1] = 0 THEN (IF Nominal(c[3], c[2]) THEN "ok" ELSE "reject")
  ELSE IF StrictAccept(Bases[c[1]].schema, WireMsg(c)) THEN "ok" ELSE "reject"

(* ------------------------------ behaviour ------------------------------ *)
Structural(c) == c[3] \in {"root", "node", "cutnode", "snode", "anode"}
Init == x = <<0, <<>>, "root", 0>>
Next == \/ /\ x[3] = "root"
           /\ x' \in WireNodes \cup ShapeNodes \cup ScenNodes \cup AmpNodes
        \/ /\ x[3] = "snode"
           /\ x' \in {<<0, q, ScenFamilies[x[2][1]], 0>> : q \in ScenCasesOf(ScenFamilies[x[2][1]])}
        \/ /\ x[3] = "anode"
           /\ x' \in AmpCasesOf(x[1])
        \/ /\ x[3] = "node"
           /\ x' \in (IF x[1] > 0 THEN WireCasesOf(x[1], x[2]) ELSE ShapeCasesOf(x[2][1], x[2][2]))
        \/ /\ x[3] = "cutnode"
           /\ x' \in CutsOfNode(x[1], x[4])
        \/ /\ ~Structural(x) /\ ~IsScen(x) /\ x[1] > 0 /\ x[4] = 0 /\ ~(x[2] = <<>> /\ x[3] = "swap")
           /\ \E k \in CutSet(x[1], x[2], x[3]) \cup {0 - j : j \in InnerCuts(x[2], x[3])} : x' = <<x[1], x[2], x[3], k>>
Spec == Init /\ [][Next]_x

Total ==
  Structural(x) \/
  LET v == Verdict(x) IN
  /\ v \in {"ok", "reject"}
  /\ (x[1] > 0 /\ x[2] = <<>> /\ x[3] = "canon" /\ x[4] = 0 => v = "ok")                \* the valid message is accepted
  /\ (x[1] > 0 /\ x[2] = <<>> /\ x[3] = "canon" /\ x[4] = 0 =>                           \* and the reference encoder reproduces the real bytes
        Encode(Bases[x[1]].schema, Bases[x[1]].value) = Bases[x[1]].bytes)
  /\ IF IsScen(x)
     THEN PrintT(<<"SC", ToJson([s |-> x[3], p |-> x[2], b |-> (IF x[1] = 0 THEN "" ELSE Bases[x[1]].name), k |-> x[4], ok |-> B(v = "ok")])>>)
     ELSE IF x[1] = 0
     THEN PrintT(<<"SH", ToJson([s |-> x[3], p |-> x[2], ok |-> B(v = "ok")])>>)
     ELSE IF x[4] <= 0                   \* roots and nested cuts carry their bytes; plain truncations refer to their root
          THEN PrintT(<<"FZ", ToJson([s |-> Bases[x[1]].name, p |-> x[2], c |-> x[3], k |-> (IF x[2] = <<>> THEN 0 ELSE x[4]),
                                      b |-> WireMsg(x), ok |-> B(v = "ok")])>>)
          ELSE PrintT(<<"FZ", ToJson([s |-> Bases[x[1]].name, p |-> x[2], c |-> x[3], k |-> x[4], ok |-> B(v = "ok")])>>)
=============================================================================
