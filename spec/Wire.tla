-------------------------------- MODULE Wire --------------------------------
(***************************************************************************)
(* C08: the LIP-0027 / LIP-0064 wire grammar as a reference codec over an  *)
(* abstract schema, and the LIP-0018 Lisk32 address text.                  *)
(*                                                                         *)
(* Bytes are naturals 0..255, messages are sequences of bytes.             *)
(*                                                                         *)
(* INTEGERS.  TLC integers are 32-bit, the wire carries uint64.  A number  *)
(* is therefore a little-endian sequence of base-128 digits (0..127)       *)
(* WITHOUT trailing zero digits; zero is <<>>.  2^32-1 is                  *)
(* <<127,127,127,127,15>>, 2^63 is <<0,0,0,0,0,0,0,0,0,1>>, 2^64-1 is      *)
(* <<127 (9 times), 1>>.  This makes Varint a one-liner and keeps every    *)
(* arithmetic step below 2^31.  A signed number is <<s, m>>: s = 0 means   *)
(* m, s = 1 means -(m+1)  (so int64 min is <<1, 2^63-1>>); its wire form   *)
(* is the zig-zag number 2m+s.                                             *)
(*                                                                         *)
(* SCHEMA.  A sequence of fields <<num, kind, sub>> in ascending field     *)
(* number; sub is the schema of a nested message (<<>> otherwise).         *)
(*   kind      value                       wire                            *)
(*   uint      number (uint64)             key(0) varint                   *)
(*   uint32    number < 2^32               key(0) varint                   *)
(*   sint      <<s, m>> (int64)            key(0) varint(zigzag)           *)
(*   bool      0 | 1                       key(0) byte                     *)
(*   bytes     byte sequence               key(2) len bytes                *)
(*   string    UTF-8 bytes of NFC text     key(2) len bytes                *)
(*   ruint ruint32 rsint rbool             packed: key(2) len items,       *)
(*                                         nothing at all when empty       *)
(*   rbytes rstring rnested                one key(2) len item per element *)
(*   nested    sequence of field values    key(2) len message              *)
(* A value of a schema is the sequence of its field values.                *)
(***************************************************************************)
EXTENDS Naturals, Sequences, FiniteSets, TLC

Min2(a, b) == IF a < b THEN a ELSE b
SetMin(S) == CHOOSE x \in S : \A y \in S : x <= y
SetMax(S) == CHOOSE x \in S : \A y \in S : x >= y

RECURSIVE Flat(_)
Flat(ss) == IF ss = <<>> THEN <<>> ELSE Head(ss) \o Flat(Tail(ss))

(* ------------------------------ numbers ------------------------------ *)
Strip(d) == LET nz == {i \in 1..Len(d) : d[i] # 0} IN IF nz = {} THEN <<>> ELSE SubSeq(d, 1, SetMax(nz))
IsNum(d) == /\ \A i \in 1..Len(d) : d[i] \in 0..127
            /\ (Len(d) > 0 => d[Len(d)] # 0)
IsU64(d) == IsNum(d) /\ Len(d) <= 10 /\ (Len(d) = 10 => d[10] <= 1)
IsU32(d) == IsNum(d) /\ Len(d) <= 5 /\ (Len(d) = 5 => d[5] <= 15)
IsI64(v) == v[1] \in {0, 1} /\ IsNum(v[2]) /\ Len(v[2]) <= 9          \* m < 2^63 = 128^9
NatToNum(n) == Strip([i \in 1..5 |-> (n \div (128 ^ (i - 1))) % 128])   \* n < 2^31
Small(d) == Len(d) <= 4                                                 \* value < 2^28
NumToNat(d) == LET g(i) == IF i <= Len(d) THEN d[i] ELSE 0
               IN g(1) + 128 * g(2) + 16384 * g(3) + 2097152 * g(4)     \* for Small(d)

Double(d) == Strip([i \in 1..(Len(d) + 1) |->
                      (((IF i <= Len(d) THEN d[i] ELSE 0) * 2) % 128) + (IF i > 1 THEN d[i - 1] \div 64 ELSE 0)])
Half(d) == Strip([i \in 1..Len(d) |-> d[i] \div 2 + (IF i < Len(d) THEN (d[i + 1] % 2) * 64 ELSE 0)])
ZigZag(v) == LET t == Double(v[2])
             IN IF v[1] = 0 THEN t ELSE IF t = <<>> THEN <<1>> ELSE [t EXCEPT ![1] = @ + 1]
UnZigZag(z) == <<IF z = <<>> THEN 0 ELSE z[1] % 2, Half(z)>>

(* ------------------------------ encoding ----------------------------- *)
\* shortest 7-bit groups, least significant group first, continuation bit on all but the last
Varint(d) == IF d = <<>> THEN <<0>> ELSE [i \in 1..Len(d) |-> IF i < Len(d) THEN d[i] + 128 ELSE d[i]]
Key(num, wt) == Varint(NatToNum(num * 8 + wt))
LenPrefixed(x) == Varint(NatToNum(Len(x))) \o x
WT(kind) == IF kind \in {"uint", "uint32", "sint", "bool"} THEN 0 ELSE 2
ElemKind(kind) == CASE kind = "rbytes" -> "bytes" [] kind = "rstring" -> "string" [] kind = "rnested" -> "nested"
                    [] kind = "ruint" -> "uint" [] kind = "ruint32" -> "uint32" [] kind = "rsint" -> "sint"
                    [] kind = "rbool" -> "bool"
Packed == {"ruint", "ruint32", "rsint", "rbool"}
Repeated == {"rbytes", "rstring", "rnested"}

Item(kind, v) == CASE kind \in {"uint", "uint32"} -> Varint(v)
                   [] kind = "sint" -> Varint(ZigZag(v))
                   [] kind = "bool" -> <<v>>

RECURSIVE Encode(_, _)
EncField(f, v) ==
  LET num == f[1]  k == f[2] IN
  CASE k \in {"uint", "uint32", "sint", "bool"} -> Key(num, 0) \o Item(k, v)
    [] k \in {"bytes", "string"} -> Key(num, 2) \o LenPrefixed(v)
    [] k = "nested" -> Key(num, 2) \o LenPrefixed(Encode(f[3], v))
    [] k \in Packed -> IF v = <<>> THEN <<>>
                       ELSE Key(num, 2) \o LenPrefixed(Flat([i \in 1..Len(v) |-> Item(ElemKind(k), v[i])]))
    [] k \in {"rbytes", "rstring"} -> Flat([i \in 1..Len(v) |-> Key(num, 2) \o LenPrefixed(v[i])])
    [] k = "rnested" -> Flat([i \in 1..Len(v) |-> Key(num, 2) \o LenPrefixed(Encode(f[3], v[i]))])
Encode(s, v) == Flat([i \in 1..Len(s) |-> EncField(s[i], v[i])])

(* ------------------------------- strings ----------------------------- *)
\* RFC 3629 well-formedness (no overlong forms, no surrogates, at most U+10FFFF)
RECURSIVE Utf8From(_, _)
Utf8From(b, i) ==
  IF i > Len(b) THEN TRUE ELSE
  LET c == b[i]
      Cont(j) == j <= Len(b) /\ b[j] \in 128..191
      In(j, lo, hi) == j <= Len(b) /\ b[j] \in lo..hi
  IN IF c < 128 THEN Utf8From(b, i + 1)
     ELSE IF c \in 194..223 THEN Cont(i + 1) /\ Utf8From(b, i + 2)
     ELSE IF c = 224 THEN In(i + 1, 160, 191) /\ Cont(i + 2) /\ Utf8From(b, i + 3)
     ELSE IF c \in (225..236) \cup (238..239) THEN Cont(i + 1) /\ Cont(i + 2) /\ Utf8From(b, i + 3)
     ELSE IF c = 237 THEN In(i + 1, 128, 159) /\ Cont(i + 2) /\ Utf8From(b, i + 3)
     ELSE IF c = 240 THEN In(i + 1, 144, 191) /\ Cont(i + 2) /\ Cont(i + 3) /\ Utf8From(b, i + 4)
     ELSE IF c \in 241..243 THEN Cont(i + 1) /\ Cont(i + 2) /\ Cont(i + 3) /\ Utf8From(b, i + 4)
     ELSE IF c = 244 THEN In(i + 1, 128, 143) /\ Cont(i + 2) /\ Cont(i + 3) /\ Utf8From(b, i + 4)
     ELSE FALSE
Utf8Valid(b) == Utf8From(b, 1)

\* NFC-ness needs the Unicode tables (trusted base, golang.org/x/text).  The specification knows a few
\* strings that are NOT in NFC and treats every other well-formed string as normalised; the harness
\* checks this classification for every string that TLC generates, and normalises before it logs.
NonNFCSamples == { <<101, 204, 129>>,        \* e + U+0301 (NFC: U+00E9)
                   <<65, 204, 138>>,         \* A + U+030A (NFC: U+00C5)
                   <<226, 132, 171>> }       \* U+212B ANGSTROM SIGN (NFC: U+00C5)
IsNFC(b) == ~\E smp \in NonNFCSamples : \E i \in 1..Len(b) : i + Len(smp) - 1 <= Len(b) /\ SubSeq(b, i, i + Len(smp) - 1) = smp

(* ---------------------------- strict decoding ------------------------- *)
\* All readers work on the whole message b with a position p (1-based) and the index e of the last
\* byte they may touch; they return [ok, v, p] with p the position after what was consumed.
Fail == [ok |-> FALSE, v |-> <<>>, p |-> 0]
Ok(v, p) == [ok |-> TRUE, v |-> v, p |-> p]

\* varint: terminates within 10 bytes and within e, shortest form, 10th byte at most 1 (uint64)
RdVar(b, p, e) ==
  LET K == {k \in 1..Min2(10, e - p + 1) : b[p + k - 1] < 128} IN
  IF K = {} THEN Fail ELSE
  LET n == SetMin(K)
      g == [i \in 1..n |-> b[p + i - 1] % 128]
  IN IF (n = 1 \/ g[n] # 0) /\ (n = 10 => g[10] <= 1)
     THEN Ok(IF n = 1 /\ g[1] = 0 THEN <<>> ELSE g, p + n)
     ELSE Fail

RdKey(b, p, e) == LET r == RdVar(b, p, e) IN
  IF r.ok /\ Small(r.v) THEN [ok |-> TRUE, num |-> NumToNat(r.v) \div 8, wt |-> NumToNat(r.v) % 8, p |-> r.p]
  ELSE [ok |-> FALSE, num |-> 0, wt |-> 0, p |-> 0]

\* length prefix: a strict varint whose value fits between the position after it and e
RdLen(b, p, e) == LET r == RdVar(b, p, e) IN
  IF r.ok /\ Small(r.v) /\ r.p + NumToNat(r.v) - 1 <= e THEN [ok |-> TRUE, n |-> NumToNat(r.v), p |-> r.p]
  ELSE [ok |-> FALSE, n |-> 0, p |-> 0]

RdItem(kind, b, p, e) ==
  IF kind = "bool" THEN (IF p <= e /\ b[p] \in {0, 1} THEN Ok(b[p], p + 1) ELSE Fail)
  ELSE LET r == RdVar(b, p, e) IN
       IF ~r.ok THEN Fail
       ELSE IF kind = "uint" THEN r
       ELSE IF kind = "uint32" THEN (IF IsU32(r.v) THEN r ELSE Fail)
       ELSE Ok(UnZigZag(r.v), r.p)                                       \* sint

\* packed items fill [p, e] exactly
RECURSIVE RdItems(_, _, _, _, _)
RdItems(kind, b, p, e, acc) ==
  IF p = e + 1 THEN Ok(acc, p) ELSE
  LET r == RdItem(kind, b, p, e) IN IF r.ok THEN RdItems(kind, b, r.p, e, Append(acc, r.v)) ELSE Fail

RECURSIVE PFields(_, _, _, _, _)

\* one keyed element of kind k (scalar, length-delimited or nested) with field number num
PKeyed(num, k, sub, b, p, e) ==
  LET key == RdKey(b, p, e) IN
  IF ~(key.ok /\ key.num = num /\ key.wt = WT(k)) THEN Fail ELSE
  IF WT(k) = 0 THEN RdItem(k, b, key.p, e) ELSE
  LET l == RdLen(b, key.p, e) IN
  IF ~l.ok THEN Fail ELSE
  LET last == l.p + l.n - 1
      data == SubSeq(b, l.p, last) IN
  CASE k = "bytes" -> Ok(data, last + 1)
    [] k = "string" -> IF Utf8Valid(data) /\ IsNFC(data) THEN Ok(data, last + 1) ELSE Fail
    [] k = "nested" -> LET s == PFields(sub, 1, b, l.p, last) IN
                       IF s.ok /\ s.p = last + 1 THEN s ELSE Fail           \* the nested message fills its length
    [] k \in Packed -> IF l.n = 0 THEN Fail                                 \* an empty array is written as nothing
                       ELSE RdItems(ElemKind(k), b, l.p, last, <<>>)

\* is the next key one of field num?  (an unreadable key is "not present": it is rejected by whoever
\* has to consume it next - a later field or the end-of-message check)
Present(num, b, p, e) == p <= e /\ LET key == RdKey(b, p, e) IN key.ok /\ key.num = num

RECURSIVE PRep(_, _, _, _, _)
PRep(f, b, p, e, acc) ==
  IF ~Present(f[1], b, p, e) THEN Ok(acc, p) ELSE
  LET r == PKeyed(f[1], ElemKind(f[2]), f[3], b, p, e) IN
  IF r.ok THEN PRep(f, b, r.p, e, Append(acc, r.v)) ELSE Fail

PField(f, b, p, e) ==
  IF f[2] \in Repeated THEN PRep(f, b, p, e, <<>>)
  ELSE IF f[2] \in Packed THEN (IF Present(f[1], b, p, e) THEN PKeyed(f[1], f[2], f[3], b, p, e) ELSE Ok(<<>>, p))
  ELSE PKeyed(f[1], f[2], f[3], b, p, e)                                    \* required: none missing, in order

PFields(s, i, b, p, e) ==
  IF i > Len(s) THEN Ok(<<>>, p) ELSE
  LET r == PField(s[i], b, p, e) IN
  IF ~r.ok THEN Fail ELSE
  LET t == PFields(s, i + 1, b, r.p, e) IN
  IF t.ok THEN Ok(<<r.v>> \o t.v, t.p) ELSE Fail

StrictParse(s, b) == LET r == PFields(s, 1, b, 1, Len(b)) IN IF r.ok /\ r.p = Len(b) + 1 THEN r ELSE Fail   \* nothing trailing
StrictAccept(s, b) == StrictParse(s, b).ok
Decode(s, b) == StrictParse(s, b).v

(* ------------------------------ well-typed values --------------------- *)
IsBytes(x) == \A i \in 1..Len(x) : x[i] \in 0..255
RECURSIVE WellTyped(_, _)
TypedAs(k, sub, x) ==
  CASE k = "uint" -> IsU64(x) [] k = "uint32" -> IsU32(x) [] k = "sint" -> IsI64(x) /\ IsU64(ZigZag(x))
    [] k = "bool" -> x \in {0, 1} [] k = "bytes" -> IsBytes(x)
    [] k = "string" -> IsBytes(x) /\ Utf8Valid(x) /\ IsNFC(x)
    [] k = "nested" -> WellTyped(sub, x)
WellTyped(s, v) == /\ Len(v) = Len(s)
                   /\ \A i \in 1..Len(s) :
                        IF s[i][2] \in Packed \cup Repeated
                        THEN \A j \in 1..Len(v[i]) : TypedAs(ElemKind(s[i][2]), s[i][3], v[i][j])
                        ELSE TypedAs(s[i][2], s[i][3], v[i])

(* ------------------------------- Lisk32 ------------------------------- *)
\* LIP-0018: 20 bytes = 32 five-bit symbols, 6 checksum symbols from a BCH code over GF(32) whose
\* 30-bit state fits TLC integers; text = "lsk" followed by the 38 symbols in L32Charset.
L32Charset == "zxvcpmbn3465o978uyrtkqew2adsjhfg"
L32Gen == <<996825010, 642813549, 513874426, 1027748829, 705979059>>
          \* 0x3b6a57b2, 0x26508e6d, 0x1ea119fa, 0x3d4233dd, 0x2a1462b3

\* exclusive or of naturals below 2^30: bitwise on five-bit digits through a table that TLC computes once
RECURSIVE XorBits(_, _)
XorBits(a, b) == IF a = 0 THEN b ELSE IF b = 0 THEN a ELSE ((a + b) % 2) + 2 * XorBits(a \div 2, b \div 2)
XorTab == [a \in 0..31 |-> [b \in 0..31 |-> XorBits(a, b)]]
RECURSIVE Xor(_, _)
Xor(a, b) == IF a = 0 THEN b ELSE IF b = 0 THEN a ELSE XorTab[a % 32][b % 32] + 32 * Xor(a \div 32, b \div 32)

\* (the tests "c >= 0" force TLC to evaluate an accumulator before it recurses; without them the lazily
\*  evaluated argument chains overflow the Java stack)
RECURSIVE XorGens(_, _, _)
XorGens(x, top, i) == IF i > 5 THEN x
                      ELSE LET c == IF (top \div (2 ^ (i - 1))) % 2 = 1 THEN Xor(x, L32Gen[i]) ELSE x
                           IN IF c >= 0 THEN XorGens(c, top, i + 1) ELSE 0
PolyStep(chk, v) == XorGens(Xor((chk % 33554432) * 32, v), chk \div 33554432, 1)
RECURSIVE PolyFrom(_, _, _)
PolyFrom(vals, i, chk) == IF i > Len(vals) THEN chk
                          ELSE LET c == PolyStep(chk, vals[i]) IN IF c >= 0 THEN PolyFrom(vals, i + 1, c) ELSE 0
Polymod(vals) == PolyFrom(vals, 1, 1)

\* regroup a sequence of from-bit numbers into to-bit numbers (big-endian bit order, total bits divisible)
Regroup(xs, from, to) ==
  LET bit(j) == (xs[(j - 1) \div from + 1] \div (2 ^ (from - 1 - ((j - 1) % from)))) % 2      \* j in 1..Len*from
      RECURSIVE val(_, _)
      val(k, t) == IF t = to THEN 0 ELSE bit((k - 1) * to + t + 1) * (2 ^ (to - 1 - t)) + val(k, t + 1)
  IN [k \in 1..((Len(xs) * from) \div to) |-> val(k, 0)]

L32Checksum(sym32) == LET mod == Xor(Polymod(sym32 \o <<0, 0, 0, 0, 0, 0>>), 1)
                      IN [p \in 1..6 |-> (mod \div (32 ^ (6 - p))) % 32]
L32Encode(addr) == LET s == Regroup(addr, 8, 5) IN s \o L32Checksum(s)          \* 20 bytes -> 38 symbols
L32Valid(sym38) == Len(sym38) = 38 /\ (\A i \in 1..38 : sym38[i] \in 0..31) /\ Polymod(sym38) = 1
L32Decode(sym38) == Regroup(SubSeq(sym38, 1, 32), 5, 8)                        \* 38 symbols -> 20 bytes

\* The TEXT form, as a sequence of character codes: "lsk" followed by 38 characters of L32Charset.  A text converts to
\* bytes and back without loss iff it is in the image of the bytes -> text conversion, i.e. iff it has the lower-case
\* prefix, 38 characters of the (lower-case) alphabet and a valid checksum: every other accepted text would come back
\* as a different text.
L32CharCodes == <<122, 120, 118, 99, 112, 109, 98, 110, 51, 52, 54, 53, 111, 57, 55, 56,
                  117, 121, 114, 116, 107, 113, 101, 119, 50, 97, 100, 115, 106, 104, 102, 103>>
L32Prefix == <<108, 115, 107>>
L32SymOf(c) == IF \E i \in 1..32 : L32CharCodes[i] = c THEN (CHOOSE i \in 1..32 : L32CharCodes[i] = c) - 1 ELSE 32
L32TextValid(t) == /\ Len(t) = 41
                   /\ SubSeq(t, 1, 3) = L32Prefix
                   /\ L32Valid([i \in 1..38 |-> L32SymOf(t[i + 3])])
=============================================================================
