---------------------------- MODULE StateMachine ----------------------------
(***************************************************************************)
(* Application state machine (pkg/statemachine + pkg/framework) - C16.     *)
(*                                                                         *)
(* The application state is a map from CELLS to values; a cell is a pair   *)
(* (module store, key), numbered c = (store-1)*NK + key, value 0 = absent. *)
(* Store s belongs to module s (two registered modules); the command       *)
(* belongs to module 1.                                                    *)
(* A transaction is a command SCRIPT: a sequence of writes <<cell, value>> *)
(* (value 0 = delete; <<0, 1>> = the command takes a snapshot of the       *)
(* stores, <<0, 2>> = it restores its latest snapshot), a pattern of       *)
(* emitted events (0 = revertible, 1 = unrevertible) and an outcome        *)
(* ok | fail.  Around the command run the hooks of the modules:            *)
(*   hw  write of a BeforeCommandExecute hook (+ one revertible and one    *)
(*       unrevertible event of that module)                                *)
(*   aw  write of an AfterCommandExecute hook (+ the same two events); it  *)
(*       runs after the failure has been undone, so it always stays        *)
(*   bh  write of a BeforeTransactionsExecute hook (first thing in a block)*)
(*   ah  write of an AfterTransactionsExecute hook (last thing in a block) *)
(* The hook that writes cell c is the hook of the module owning c.         *)
(*                                                                         *)
(*   ExecuteTx   failure: state = the snapshot taken before the command    *)
(*               (after the before-hooks), the command's revertible events *)
(*               dropped, unrevertible ones kept, then the after-hooks'    *)
(*               effects, then the standard event (success = false);       *)
(*               success: all kept, standard event (success = true);       *)
(*               indexes consecutive within the block                      *)
(*   Commit      root = Tree(state): the canonical LIP-0039 tree of the    *)
(*               PRESENT cells (deleted cells are absent).  As in SMT.tla  *)
(*               the root is a TERM  E | L(cell, value) | B(p, l, r); the  *)
(*               harness folds it with SHA-256.  The tree key of a cell is *)
(*               storePrefix(6 bytes) ++ SHA-256(key) (framework           *)
(*               getTreeKey); KeyBits[c] are its leading bits.  B carries  *)
(*               in p the bits shared by all keys below it above the split *)
(*               (a chain of branches with one empty child each).          *)
(*   Reject      the block in execution is offered with a header root that *)
(*               is NOT the root of its resulting state: Commit fails and  *)
(*               nothing changes                                           *)
(*   Revert      undoes the diff recorded by Commit (StagedStore!DiffOf /  *)
(*               Revert): previous state and previous root                 *)
(*   BadRevert   Revert with a wrong expected root: fails, nothing changes *)
(*   Crash       Commit reached the application but not the engine         *)
(*   Restart     InitRecovery(appHeight, engineHeight): the application    *)
(*               rolls back to the engine's tip                            *)
(*   BadInit     a start with a root that is not the application's: fails, *)
(*               nothing changes, the next start with the right root works *)
(*   Genesis     the state written by InitGenesisState becomes height 0;   *)
(*               the root the application GENERATES for the genesis block, *)
(*               the root its Commit computes and Tree(state) agree        *)
(*                                                                         *)
(*   chain : committed application states, chain[h+1] = height h           *)
(*   engH  : height of the engine's tip (appH = Len(chain)-1 >= engH)      *)
(*   open, wst, evlog, ntx : the block being executed                      *)
(*   trace : history with the expected observations (replayed by the       *)
(*           harness on the real ABIHandler)                               *)
(***************************************************************************)
EXTENDS Integers, Sequences, FiniteSets, TLC, Json

CONSTANTS NS, NK, NV,   \* module stores, keys per store, values 1..NV
          KeyBits,      \* cell -> leading bits of its state-tree key (sequence of 0/1)
          Presets,      \* set of states (sequences over cells) a "preset" / "genesis" step may establish
          Plan,         \* Plan[i] = [k: kinds allowed at step i, cells, mw, me, mo: bounds of a tx at step i,
                        \*            sn: snapshot / restore allowed in the script]
          MaxTx,        \* transactions per block
          MaxHeight,
          Sim,          \* TRUE: scripts are drawn at random (for -simulate) instead of enumerated
          DumpEvery

VARIABLES chain, engH, open, wst, evlog, ntx, trace
vars == <<chain, engH, open, wst, evlog, ntx, trace>>

SS == INSTANCE StagedStore

NC == NS * NK
Cell == 1..NC
Empty == [c \in Cell |-> 0]
Min(a, b) == IF a < b THEN a ELSE b

ASSUME /\ \A c \in Cell : \A d \in Cell : c # d => KeyBits[c] # KeyBits[d]
       /\ \A p \in Presets : DOMAIN p = Cell
       /\ PrintT(<<"META", ToJson([ns |-> NS, nk |-> NK, nv |-> NV, keybits |-> KeyBits])>>)

(* ------------------------------ state maps ------------------------------ *)
Apply(s, w) == [s EXCEPT ![w[1]] = w[2]]
ApplyOpt(s, w) == IF w = <<>> THEN s ELSE Apply(s, w)
SNAP == <<0, 1>>
RESTORE == <<0, 2>>
\* s: the stores, sn: the command's latest snapshot not yet restored (<<>>: none), ws: the rest of the script.
\* A restore without a snapshot is not a call at all (the harness skips it).
RECURSIVE RunScript(_, _, _)
RunScript(s, sn, ws) ==
  IF ws = <<>> THEN s
  ELSE LET x == Head(ws) IN
       IF x[1] # 0 THEN RunScript(Apply(s, x), sn, Tail(ws))
       ELSE IF x = SNAP THEN RunScript(s, <<s>>, Tail(ws))
       ELSE IF sn = <<>> THEN RunScript(s, sn, Tail(ws))
       ELSE RunScript(sn[1], <<>>, Tail(ws))
ApplyAll(s, ws) == RunScript(s, <<>>, ws)
\* ws with a snapshot taken after i of its operations and restored after j of them
WithSnap(ws, i, j) == SubSeq(ws, 1, i) \o <<SNAP>> \o SubSeq(ws, i + 1, j) \o <<RESTORE>> \o SubSeq(ws, j + 1, Len(ws))

Present(s) == {c \in Cell : s[c] # 0}
AsSet(s) == {<<c, s[c]>> : c \in Present(s)}
FromSet(m) == [c \in Cell |-> IF SS!Has(m, c) THEN SS!Val(m, c) ELSE 0]

(* --------------------- canonical LIP-0039 tree (term) -------------------- *)
\* first bit (1-based) in which the tree keys of two cells differ; a constant table
FirstDiff == [a \in Cell |-> [b \in Cell |->
               IF a = b THEN 0
               ELSE CHOOSE d \in 1..Len(KeyBits[a]) :
                      KeyBits[a][d] # KeyBits[b][d] /\ \A x \in 1..(d - 1) : KeyBits[a][x] = KeyBits[b][x]]]
\* depth at which the keys of S (at least two cells) split
SplitAt(S) == LET any == CHOOSE x \in S : TRUE
                  D == {FirstDiff[any][b] : b \in S \ {any}}
              IN CHOOSE d \in D : \A x \in D : d <= x

RECURSIVE TreeOf(_, _, _)
TreeOf(S, s, d) ==
  IF S = {} THEN [t |-> "E"]
  ELSE IF Cardinality(S) = 1 THEN LET c == CHOOSE x \in S : TRUE IN [t |-> "L", c |-> c, v |-> s[c]]
  ELSE LET e == SplitAt(S)
           any == CHOOSE x \in S : TRUE
       IN [t |-> "B", p |-> SubSeq(KeyBits[any], d, e - 1),
           l |-> TreeOf({c \in S : KeyBits[c][e] = 0}, s, e + 1),
           r |-> TreeOf({c \in S : KeyBits[c][e] = 1}, s, e + 1)]
Tree(s) == TreeOf(Present(s), s, 1)

RECURSIVE Leaves(_)
Leaves(t) == IF t.t = "E" THEN {} ELSE IF t.t = "L" THEN {<<t.c, t.v>>} ELSE Leaves(t.l) \cup Leaves(t.r)

(* -------------------------------- events -------------------------------- *)
\* n > 0: position in the command's pattern; 0: the standard event (s = its success flag, -1 for all others);
\* n < 0: events of hooks, one revertible and one unrevertible each:
\*   -1, -4  BeforeCommandExecute          -2, -3  AfterCommandExecute
\*   -5, -6  BeforeTransactionsExecute     -7, -8  AfterTransactionsExecute
E(n) == [n |-> n, s |-> -1]
RECURSIVE Keep(_, _, _)
Keep(e, i, ok) ==
  IF i > Len(e) THEN <<>>
  ELSE (IF ok \/ e[i] = 1 THEN <<E(i)>> ELSE <<>>) \o Keep(e, i + 1, ok)
\* A hook that runs before the command (fee, nonce ...) writes hw = <<cell, value>> and logs events.  The statement
\* protects them: a failing command is undone back to the state "before the command ran" - that is after these hooks -
\* and only "the command's revertible events" are discarded.  The after-hooks run when the failure has been undone:
\* whatever they write and log stays, revertible or not.  The standard event closes the transaction.
HookEv(hw) == IF hw = <<>> THEN <<>> ELSE <<E(-1), E(-4)>>
AfterEv(aw) == IF aw = <<>> THEN <<>> ELSE <<E(-2), E(-3)>>
BlockEvB(bh) == IF bh = <<>> THEN <<>> ELSE <<E(-5), E(-6)>>
BlockEvA(ah) == IF ah = <<>> THEN <<>> ELSE <<E(-7), E(-8)>>
Response(e, ok, hw, aw) == HookEv(hw) \o Keep(e, 1, ok) \o AfterEv(aw) \o <<[n |-> 0, s |-> IF ok THEN 1 ELSE 0]>>
\* the block's event log: consecutive indexes
Num(base, evs, t) == base \o [i \in 1..Len(evs) |-> [n |-> evs[i].n, s |-> evs[i].s, tx |-> t, idx |-> Len(base) + i - 1]]

(* ---------------------------------- steps -------------------------------- *)
appH == Len(chain) - 1
Tip == chain[Len(chain)]
Step == Len(trace) + 1
Planned == Len(trace) < Len(Plan)
P == Plan[Step]
Allowed(k) == Planned /\ k \in P.k

Rec(op, w, e, ok, pre, st, off, ev, h, root, ahead) ==
  [op |-> op, w |-> w, e |-> e, ok |-> ok, pre |-> pre, st |-> st, off |-> off, ev |-> ev, h |-> h, root |-> root, ahead |-> ahead,
   hw |-> <<>>, aw |-> <<>>, mid |-> st, bh |-> <<>>, ah |-> <<>>, bad |-> ""]
NoTerm == [t |-> "-"]

Init ==
  /\ chain = <<[st |-> Empty, root |-> Tree(Empty), diff |-> SS!DiffOf({}, {})]>>
  /\ engH = 0 /\ open = FALSE /\ wst = Empty /\ evlog = <<>> /\ ntx = 0 /\ trace = <<>>

CanTx == engH = appH /\ (IF open THEN ntx < MaxTx ELSE appH < MaxHeight)
CanCommit == engH = appH /\ (open \/ appH < MaxHeight)
CanRevert == engH = appH /\ ~open /\ appH >= 1
CanRestart == TRUE
CanRecover == appH > engH      \* plan kind "recover": a restart only where the application is ahead
CanPreset == engH = appH /\ ~open /\ appH = 0
CanBadInit == engH = appH
CanGenesis == trace = <<>>

\* The writes of the block hooks are functions of what is chosen anyway (not one more dimension of the enumeration); in
\* simulation they are drawn at random.
LoCell == 1
HiCell == NC
BHOf(k) == IF k % 2 = 0 THEN <<>> ELSE <<IF (k \div 2) % 2 = 0 THEN HiCell ELSE LoCell, ((k \div 4) % NV) + 1>>
AHOf(k) == IF k % 2 = 0 THEN <<>> ELSE <<IF (k \div 2) % 2 = 0 THEN LoCell ELSE HiCell, (k \div 4) % (NV + 1)>>
BlockWrites == {<<>>} \cup ({LoCell, HiCell} \X (0..NV))

\* a transaction; bh: the BeforeTransactionsExecute hook's write if this transaction opens the block
TxRecH(w, e, ok, hw, aw, bh) ==
  LET pre == IF open THEN wst ELSE ApplyOpt(Tip.st, bh)
      base == IF open THEN evlog ELSE Num(<<>>, BlockEvB(bh), 0)
      snapshot == ApplyOpt(pre, hw)                               \* taken after the before-hooks, before the command
      after == ApplyAll(snapshot, w)
      mid == IF ok THEN after ELSE snapshot
      post == ApplyOpt(mid, aw)
  IN [Rec("tx", w, e, IF ok THEN 1 ELSE 0, pre, post, Len(base), Response(e, ok, hw, aw), appH + 1, NoTerm, 0)
        EXCEPT !.hw = hw, !.aw = aw, !.mid = mid, !.bh = IF open THEN <<>> ELSE bh]
TxRec(w, e, ok) == TxRecH(w, e, ok, <<>>, <<>>, <<>>)

DoTx(w, e, ok, hw, aw, bh) ==
  LET r == TxRecH(w, e, ok, hw, aw, bh)
      base == IF open THEN evlog ELSE Num(<<>>, BlockEvB(bh), 0)
      t == (IF open THEN ntx ELSE 0) + 1
  IN /\ open' = TRUE
     /\ wst' = r.st
     /\ evlog' = Num(base, r.ev, t)
     /\ ntx' = t
     /\ trace' = Append(trace, r)
     /\ UNCHANGED <<chain, engH>>

\* hook modes <<cell of the before-hook's write, cell of the after-hook's write>> (0: that hook does nothing); lo belongs
\* to module 1 (the command's), hi to module 2
HookModes(lo, hi) == <<<<lo, hi>>, <<hi, lo>>, <<hi, hi>>, <<lo, 0>>, <<0, hi>>>>
HookWrites(m, hv, av) == <<IF m[1] = 0 THEN <<>> ELSE <<m[1], hv>>, IF m[2] = 0 THEN <<>> ELSE <<m[2], av>>>>

Tx ==
  /\ Allowed("tx") /\ CanTx
  /\ LET Snaps == IF P.sn THEN {SNAP, RESTORE} ELSE {}
         W == (P.cells \X (0..NV)) \cup Snaps
         lo == CHOOSE c \in P.cells : \A d \in P.cells : c <= d
         hi == CHOOSE c \in P.cells : \A d \in P.cells : c >= d
         HM == HookModes(lo, hi) IN
     IF Sim
     THEN \E ok \in BOOLEAN : \E hk \in {RandomElement(0..Len(HM))} :
          \E hv \in {RandomElement(1..NV)} : \E av \in {RandomElement(0..NV)} :
          \E bh \in {RandomElement(BlockWrites)} :
          \E n \in {RandomElement(0..P.mw)} :
          \E a1 \in {RandomElement(W)} : \E a2 \in {RandomElement(W)} : \E a3 \in {RandomElement(W)} : \E a4 \in {RandomElement(W)} :
          \E m \in {RandomElement(0..Min(P.me, P.mo - n))} :
          \E b1 \in {RandomElement({0, 1})} : \E b2 \in {RandomElement({0, 1})} : \E b3 \in {RandomElement({0, 1})} :
          \E sp \in {RandomElement(0..2)} : \E si \in {RandomElement(0..Min(n, 4))} : \E sj \in {RandomElement(0..Min(n, 4))} :
            LET hws == IF hk = 0 THEN <<<<>>, <<>>>> ELSE HookWrites(HM[hk], hv, av)
                ws0 == SubSeq(<<a1, a2, a3, a4>>, 1, Min(n, 4))
                \* every third script brackets some of its operations with a snapshot and its restoration
                ws == IF P.sn /\ sp = 0 /\ si <= sj THEN WithSnap(ws0, si, sj) ELSE ws0
            IN DoTx(ws, SubSeq(<<b1, b2, b3>>, 1, Min(m, 3)), ok, hws[1], hws[2], bh)
     ELSE \E n \in 0..P.mw : \E w \in [1..n -> W] :
          \E m \in 0..Min(P.me, P.mo - n) : \E e \in [1..m -> {0, 1}] :
          \E ok \in BOOLEAN : \E hook \in BOOLEAN :
            \* one binary choice per transaction: no hook writes, or the mode / values / block hook picked by the script
            LET k == Step + n + 2 * m + (IF ok THEN 1 ELSE 0) + (IF n > 0 THEN w[1][1] + w[1][2] ELSE 0)
                hws == IF hook THEN HookWrites(HM[(k % Len(HM)) + 1], (k % NV) + 1, (k \div 2) % (NV + 1)) ELSE <<<<>>, <<>>>>
            IN DoTx(w, e, ok, hws[1], hws[2], BHOf(k + (IF hook THEN 1 ELSE 0)))

\* the block is complete: state and number of events after the AfterTransactionsExecute hook
BlockEnd(bh, ah) ==
  LET s0 == IF open THEN wst ELSE ApplyOpt(Tip.st, bh)
      n0 == IF open THEN Len(evlog) ELSE Len(BlockEvB(bh))
  IN [st |-> ApplyOpt(s0, ah), nev |-> n0 + Len(BlockEvA(ah))]
\* the hooks of a block that ends at this step: <<bh, ah>> (bh only if no transaction has opened the block)
EndHooks ==
  IF Sim THEN {<<IF open THEN <<>> ELSE RandomElement(BlockWrites), RandomElement(BlockWrites)>>}
  ELSE LET k == Step + ntx + Len(evlog) + Cardinality(Present(IF open THEN wst ELSE Tip.st))
       IN {<<IF open THEN <<>> ELSE BHOf(k \div 2), AHOf(k)>>}

CommitWith(crash) ==
  \E hk \in EndHooks :
  LET b == BlockEnd(hk[1], hk[2])
      s == b.st
      r == Tree(s)
  IN /\ chain' = Append(chain, [st |-> s, root |-> r, diff |-> SS!DiffOf(AsSet(Tip.st), AsSet(s))])
     /\ engH' = IF crash THEN engH ELSE engH + 1
     /\ open' = FALSE /\ wst' = Empty /\ evlog' = <<>> /\ ntx' = 0
     /\ trace' = Append(trace, [Rec(IF crash THEN "crash" ELSE "commit", <<>>, <<>>, 1, Tip.st, s, b.nev, <<>>, appH + 1, r, 0)
                                  EXCEPT !.bh = hk[1], !.ah = hk[2]])

Commit == Allowed("commit") /\ CanCommit /\ CommitWith(FALSE)
Crash == Allowed("crash") /\ CanCommit /\ CommitWith(TRUE)

\* A peer's block whose header root is not the root of its resulting state ("flip": some other value, "prev": the root
\* of the state before the block, where the block changes the state): Commit fails, the block is dropped, the state,
\* the chain and the application's height stay.  root = the wrong root for "prev" (a term), Tip.root otherwise.
Reject ==
  /\ Allowed("reject") /\ CanCommit
  /\ \E hk \in EndHooks : \E bad \in {"flip", "prev"} :
     LET b == BlockEnd(hk[1], hk[2]) IN
     /\ bad = "prev" => Tree(b.st) # Tip.root
     /\ trace' = Append(trace, [Rec("reject", <<>>, <<>>, 0, Tip.st, Tip.st, b.nev, <<>>, appH, Tip.root, 0)
                                  EXCEPT !.bh = hk[1], !.ah = hk[2], !.bad = bad, !.mid = b.st])
  /\ open' = FALSE /\ wst' = Empty /\ evlog' = <<>> /\ ntx' = 0
  /\ UNCHANGED <<chain, engH>>

\* undo the recorded diffs of the heights above `to`
RECURSIVE RollFrom(_, _, _)
RollFrom(s, ch, to) ==
  IF Len(ch) - 1 <= to THEN s
  ELSE RollFrom(FromSet(SS!Revert(AsSet(s), ch[Len(ch)].diff)), SubSeq(ch, 1, Len(ch) - 1), to)
RollBack(ch, to) == RollFrom(ch[Len(ch)].st, ch, to)

Revert ==
  /\ Allowed("revert") /\ CanRevert
  /\ LET back == RollBack(chain, appH - 1) IN
     /\ chain' = SubSeq(chain, 1, Len(chain) - 1)
     /\ engH' = engH - 1
     /\ trace' = Append(trace, Rec("revert", <<>>, <<>>, 1, Tip.st, back, 0, <<>>, appH - 1, Tree(back), 0))
  /\ UNCHANGED <<open, wst, evlog, ntx>>

\* the engine asks for the removal of its tip but expects a root that is not the previous block's ("flip": some other
\* value, "prev": the root of the tip itself, where it differs from the previous one): Revert fails, nothing changes
BadRevert ==
  /\ Allowed("badrevert") /\ CanRevert
  /\ \E bad \in {"flip", "prev"} :
     /\ bad = "prev" => Tip.root # chain[Len(chain) - 1].root
     /\ trace' = Append(trace, [Rec("badrevert", <<>>, <<>>, 0, Tip.st, Tip.st, 0, <<>>, appH, Tip.root, 0) EXCEPT !.bad = bad])
  /\ UNCHANGED <<chain, engH, open, wst, evlog, ntx>>

\* the process is restarted: a block in execution is lost; if the application is ahead of the engine
\* (crash between the application's commit and the engine's) InitRecovery reverts it to the engine's tip
Restart ==
  /\ (Allowed("restart") /\ CanRestart) \/ (Allowed("recover") /\ CanRecover)
  /\ LET back == RollBack(chain, engH) IN
     /\ chain' = SubSeq(chain, 1, engH + 1)
     /\ trace' = Append(trace, Rec("restart", <<>>, <<>>, 1, Tip.st, back, 0, <<>>, engH, Tree(back), appH - engH))
  /\ open' = FALSE /\ wst' = Empty /\ evlog' = <<>> /\ ntx' = 0
  /\ UNCHANGED engH

\* a start at which the engine names a root that is not the application's root at that height ("flip": some other value,
\* "prev": the root of the height below, where it differs): Init fails, nothing changes, and a start with the right root
\* succeeds afterwards.  (Only where no recovery is due: what a failing Init leaves of a recovery is not specified.)
BadInit ==
  /\ Allowed("badinit") /\ CanBadInit
  /\ \E bad \in {"flip", "prev"} :
     /\ bad = "prev" => appH >= 1 /\ Tip.root # chain[Len(chain) - 1].root
     /\ trace' = Append(trace, [Rec("badinit", <<>>, <<>>, 0, Tip.st, Tip.st, 0, <<>>, engH, Tip.root, 0) EXCEPT !.bad = bad])
  /\ open' = FALSE /\ wst' = Empty /\ evlog' = <<>> /\ ntx' = 0
  /\ UNCHANGED <<chain, engH>>

\* the engine comes back with an OLDER tip than the one the application has committed (its database was restored from a
\* backup, or its last writes never reached the disk): the application is k >= 1 blocks ahead, on top of the one block a
\* crash between the two commits adds; the next start must roll it back block by block to the engine's tip
CanLose == ~open /\ appH >= 2 /\ appH >= engH /\ engH >= 1
Lose ==
  /\ Allowed("lose") /\ CanLose
  /\ \E k \in 1..2 :
       /\ engH - k >= 0
       /\ engH' = engH - k
       /\ trace' = Append(trace, Rec("lose", <<>>, <<>>, 1, Tip.st, Tip.st, 0, <<>>, engH - k, chain[engH - k + 1].root, appH - (engH - k)))
  /\ UNCHANGED <<chain, open, wst, evlog, ntx>>

\* block 1 = one successful transaction writing every present cell of p, committed
PresetScript(p) ==
  LET S == Present(p) IN
  [j \in 1..Cardinality(S) |-> LET c == CHOOSE x \in S : Cardinality({y \in S : y < x}) = j - 1 IN <<c, p[c]>>]
Preset ==
  /\ Allowed("preset") /\ CanPreset
  /\ \E p \in Presets :
       LET r == TxRec(PresetScript(p), <<>>, TRUE) IN
       /\ chain' = Append(chain, [st |-> r.st, root |-> Tree(r.st), diff |-> SS!DiffOf(AsSet(Tip.st), AsSet(r.st))])
       /\ engH' = engH + 1
       /\ trace' = trace \o <<r, Rec("commit", <<>>, <<>>, 1, Tip.st, r.st, 1, <<>>, 1, Tree(r.st), 0)>>
  /\ UNCHANGED <<open, wst, evlog, ntx>>

\* the genesis block: the modules write p in InitGenesisState (each module the cells of its store); it becomes height 0
Genesis ==
  /\ Allowed("genesis") /\ CanGenesis
  /\ \E p \in Presets :
       /\ chain' = <<[st |-> p, root |-> Tree(p), diff |-> SS!DiffOf({}, AsSet(p))]>>
       /\ trace' = <<Rec("genesis", PresetScript(p), <<>>, 1, Empty, p, 0, <<>>, 0, Tree(p), 0)>>
  /\ UNCHANGED <<engH, open, wst, evlog, ntx>>

Next == Tx \/ Commit \/ Crash \/ Reject \/ Revert \/ BadRevert \/ Restart \/ BadInit \/ Lose \/ Preset \/ Genesis
Spec == Init /\ [][Next]_vars

(* ------------------------------ properties ------------------------------ *)
Last == trace[Len(trace)]
\* a failed command leaves the state exactly as it was; a successful one applies all its writes; what the after-hooks
\* write stays either way
Atomic ==
  (Len(trace) > 0 /\ Last.op = "tx") =>
     /\ LET before == ApplyOpt(Last.pre, Last.hw) IN     \* "before the command ran"
        /\ Last.ok = 0 => Last.mid = before
        /\ Last.ok = 1 => Last.mid = ApplyAll(before, Last.w)
        /\ Last.st = ApplyOpt(Last.mid, Last.aw)
     /\ open /\ wst = Last.st
\* exactly one standard event, last, carrying the outcome; command events: all on success, the unrevertible ones on
\* failure; the events of the hooks before and after the command survive success and failure alike
EventsBookkeeping ==
  /\ (Len(trace) > 0 /\ Last.op = "tx") =>
       LET ev == Last.ev  k == Len(ev)  hb == Len(HookEv(Last.hw))  ha == Len(AfterEv(Last.aw)) IN
       /\ k >= 1 + hb + ha /\ ev[k].n = 0 /\ ev[k].s = Last.ok
       /\ \A i \in 1..k - 1 : ev[i].n # 0
       /\ {ev[i].n : i \in 1..hb} = (IF hb = 0 THEN {} ELSE {-1, -4})
       /\ {ev[i].n : i \in (k - ha)..(k - 1)} = (IF ha = 0 THEN {} ELSE {-2, -3})
       /\ \A i \in (1 + hb)..(k - 1 - ha) : ev[i].n > 0 /\ (i > 1 + hb => ev[i - 1].n < ev[i].n)
       /\ {ev[i].n : i \in (1 + hb)..(k - 1 - ha)} = {i \in 1..Len(Last.e) : Last.ok = 1 \/ Last.e[i] = 1}
  /\ \A i \in 1..Len(evlog) : evlog[i].idx = i - 1
  /\ \A i \in 1..Len(evlog) : \A j \in 1..Len(evlog) : (i < j) => evlog[i].tx <= evlog[j].tx
\* the root is a function of the state, with deleted cells absent from the tree
RootFunctionOfState ==
  /\ \A i \in 1..Len(chain) : chain[i].root = Tree(chain[i].st) /\ Leaves(chain[i].root) = AsSet(chain[i].st)
  /\ \A i \in 1..Len(chain) : \A j \in 1..Len(chain) : chain[i].st = chain[j].st => chain[i].root = chain[j].root
  /\ Tree(Empty) = [t |-> "E"]
\* undoing the commit diff gives the previously committed state and root
RevertInverse ==
  /\ (Len(trace) > 0 /\ Last.op \in {"revert", "restart"}) => Last.st = Tip.st /\ Last.root = Tip.root /\ Last.h = appH
  /\ \A i \in 2..Len(chain) : SS!DiffSound(AsSet(chain[i - 1].st), AsSet(chain[i].st))
\* a rejected request changes nothing: the record names the committed tip
Rejections ==
  (Len(trace) > 0 /\ Last.op \in {"reject", "badrevert", "badinit"}) =>
     /\ Last.st = Tip.st /\ Last.root = Tip.root /\ Last.pre = Tip.st /\ ~open
     /\ Last.op = "reject" /\ Last.bad = "prev" => Tree(Last.mid) # Last.root
\* the application is never behind the engine nor more than three blocks ahead (one by a crash, two by a lost engine tip); after recovery they agree
Heights ==
  /\ engH <= appH /\ appH <= engH + 3 /\ appH <= MaxHeight
  /\ (Len(trace) > 0 /\ Last.op = "restart") => appH = engH
  /\ (appH > engH) => ~open

(* -------------------------------- dumping -------------------------------- *)
Stuck ==
  Planned /\ ~(\/ "tx" \in P.k /\ CanTx
               \/ "commit" \in P.k /\ CanCommit
               \/ "crash" \in P.k /\ CanCommit
               \/ "reject" \in P.k /\ CanCommit
               \/ "revert" \in P.k /\ CanRevert
               \/ "badrevert" \in P.k /\ CanRevert
               \/ "restart" \in P.k /\ CanRestart
               \/ "badinit" \in P.k /\ CanBadInit
               \/ "recover" \in P.k /\ CanRecover
               \/ "lose" \in P.k /\ CanLose
               \/ "preset" \in P.k /\ CanPreset
               \/ "genesis" \in P.k /\ CanGenesis)
Complete == Len(trace) > 0 /\ (~Planned \/ Stuck)
DumpInv ==
  (DumpEvery > 0 /\ Complete /\ RandomElement(1..DumpEvery) = 1) => PrintT(<<"DUMP", ToJson(trace)>>)
=============================================================================
