---------------------------- MODULE StateMachine ----------------------------
(***************************************************************************)
(* Application state machine (pkg/statemachine + pkg/framework) - C16.     *)
(*                                                                         *)
(* The application state is a map from CELLS to values; a cell is a pair   *)
(* (module store, key), numbered c = (store-1)*NK + key, value 0 = absent. *)
(* A transaction is a command SCRIPT: a sequence of writes <<cell, value>> *)
(* (value 0 = delete), a pattern of emitted events (0 = revertible,        *)
(* 1 = unrevertible) and an outcome ok | fail.                             *)
(*                                                                         *)
(*   ExecuteTx   failure: state = the snapshot taken before the command,   *)
(*               revertible events dropped, unrevertible ones kept, the    *)
(*               standard event (success = false) appended; success: both  *)
(*               kept, standard event (success = true) appended; indexes   *)
(*               consecutive within the block                              *)
(*   Commit      root = Tree(state): the canonical LIP-0039 tree of the    *)
(*               PRESENT cells (deleted cells are absent).  As in SMT.tla  *)
(*               the root is a TERM  E | L(cell, value) | B(p, l, r); the  *)
(*               harness folds it with SHA-256.  The tree key of a cell is *)
(*               storePrefix(6 bytes) ++ SHA-256(key) (framework           *)
(*               getTreeKey); KeyBits[c] are its leading bits.  B carries  *)
(*               in p the bits shared by all keys below it above the split *)
(*               (a chain of branches with one empty child each).          *)
(*   Revert      undoes the diff recorded by Commit (StagedStore!DiffOf /  *)
(*               Revert): previous state and previous root                 *)
(*   Crash       Commit reached the application but not the engine         *)
(*   Restart     InitRecovery(appHeight, engineHeight): the application    *)
(*               rolls back to the engine's tip                            *)
(*                                                                         *)
(*   chain : committed application states, chain[h+1] = height h           *)
(*   engH  : height of the engine's tip (appH = Len(chain)-1 >= engH)      *)
(*   open, wst, evlog, ntx : the block being executed                      *)
(*   trace : history with the expected observations (replayed by the       *)
(*           harness on the real ABIHandler)                               *)
(***************************************************************************)
EXTENDS Integers, Sequences, FiniteSets, TLC, Json

CONSTANTS NS, NK, NV,   \* module stores, keys per store, values 1..NV
          KeyBits,      \* cell -> leading bits of its state-tree key (sequence of 0/1)
          Presets,      \* set of states (sequences over cells) a "preset" step may establish at height 1
          Plan,         \* Plan[i] = [k: kinds allowed at step i, cells, mw, me, mo: bounds of a tx at step i]
          MaxTx,        \* transactions per block
          MaxHeight,
          Sim,          \* TRUE: scripts are drawn at random (for -simulate) instead of enumerated
          DumpEvery

VARIABLES chain, engH, open, wst, evlog, ntx, trace
vars == <<chain, engH, open, wst, evlog, ntx, trace>>

SS == INSTANCE StagedStore

NC == NS * NK
Cell == 1..NC
Empty == [c \in Cell |-> 0]
Min(a, b) == IF a < b THEN a ELSE b

ASSUME /\ \A c \in Cell : \A d \in Cell : c # d => KeyBits[c] # KeyBits[d]
       /\ \A p \in Presets : DOMAIN p = Cell
       /\ PrintT(<<"META", ToJson([ns |-> NS, nk |-> NK, nv |-> NV, keybits |-> KeyBits])>>)

(* ------------------------------ state maps ------------------------------ *)
Apply(s, w) == [s EXCEPT ![w[1]] = w[2]]
RECURSIVE ApplyAll(_, _)
ApplyAll(s, ws) == IF ws = <<>> THEN s ELSE ApplyAll(Apply(s, Head(ws)), Tail(ws))

Present(s) == {c \in Cell : s[c] # 0}
AsSet(s) == {<<c, s[c]>> : c \in Present(s)}
FromSet(m) == [c \in Cell |-> IF SS!Has(m, c) THEN SS!Val(m, c) ELSE 0]

(* --------------------- canonical LIP-0039 tree (term) -------------------- *)
\* first bit (1-based) in which the tree keys of two cells differ; a constant table
FirstDiff == [a \in Cell |-> [b \in Cell |->
               IF a = b THEN 0
               ELSE CHOOSE d \in 1..Len(KeyBits[a]) :
                      KeyBits[a][d] # KeyBits[b][d] /\ \A x \in 1..(d - 1) : KeyBits[a][x] = KeyBits[b][x]]]
\* depth at which the keys of S (at least two cells) split
SplitAt(S) == LET any == CHOOSE x \in S : TRUE
                  D == {FirstDiff[any][b] : b \in S \ {any}}
              IN CHOOSE d \in D : \A x \in D : d <= x

RECURSIVE TreeOf(_, _, _)
TreeOf(S, s, d) ==
  IF S = {} THEN [t |-> "E"]
  ELSE IF Cardinality(S) = 1 THEN LET c == CHOOSE x \in S : TRUE IN [t |-> "L", c |-> c, v |-> s[c]]
  ELSE LET e == SplitAt(S)
           any == CHOOSE x \in S : TRUE
       IN [t |-> "B", p |-> SubSeq(KeyBits[any], d, e - 1),
           l |-> TreeOf({c \in S : KeyBits[c][e] = 0}, s, e + 1),
           r |-> TreeOf({c \in S : KeyBits[c][e] = 1}, s, e + 1)]
Tree(s) == TreeOf(Present(s), s, 1)

RECURSIVE Leaves(_)
Leaves(t) == IF t.t = "E" THEN {} ELSE IF t.t = "L" THEN {<<t.c, t.v>>} ELSE Leaves(t.l) \cup Leaves(t.r)

(* -------------------------------- events -------------------------------- *)
\* n = position in the command's pattern (0: the standard event), s = success flag of the standard event
RECURSIVE Keep(_, _, _)
Keep(e, i, ok) ==
  IF i > Len(e) THEN <<>>
  ELSE (IF ok \/ e[i] = 1 THEN <<[n |-> i, s |-> -1]>> ELSE <<>>) \o Keep(e, i + 1, ok)
Response(e, ok) == Keep(e, 1, ok) \o <<[n |-> 0, s |-> IF ok THEN 1 ELSE 0]>>
\* a module hook that runs before the command (BeforeCommandExecute: fee, nonce ...) writes hw = <<cell, value>> and logs
\* one revertible event (n = -1).  The statement protects it: a failing command is undone back to the state "before the
\* command ran" - that is after the hooks - and only "the command's revertible events" are discarded.
HookEv(hw) == IF hw = <<>> THEN <<>> ELSE <<[n |-> -1, s |-> -1]>>

(* ---------------------------------- steps -------------------------------- *)
appH == Len(chain) - 1
Tip == chain[Len(chain)]
Step == Len(trace) + 1
Planned == Len(trace) < Len(Plan)
P == Plan[Step]
Allowed(k) == Planned /\ k \in P.k

Rec(op, w, e, ok, pre, st, off, ev, h, root, ahead) ==
  [op |-> op, w |-> w, e |-> e, ok |-> ok, pre |-> pre, st |-> st, off |-> off, ev |-> ev, h |-> h, root |-> root, ahead |-> ahead, hw |-> <<>>]
NoTerm == [t |-> "-"]

Init ==
  /\ chain = <<[st |-> Empty, root |-> Tree(Empty), diff |-> SS!DiffOf({}, {})]>>
  /\ engH = 0 /\ open = FALSE /\ wst = Empty /\ evlog = <<>> /\ ntx = 0 /\ trace = <<>>

CanTx == engH = appH /\ (IF open THEN ntx < MaxTx ELSE appH < MaxHeight)
CanCommit == engH = appH /\ (open \/ appH < MaxHeight)
CanRevert == engH = appH /\ ~open /\ appH >= 1
CanRestart == TRUE
CanRecover == appH > engH      \* plan kind "recover": a restart only where the application is ahead
CanPreset == engH = appH /\ ~open /\ appH = 0

TxRecH(w, e, ok, hw) ==
  LET pre == IF open THEN wst ELSE Tip.st
      base == IF open THEN evlog ELSE <<>>
      snapshot == IF hw = <<>> THEN pre ELSE Apply(pre, hw)      \* taken after the hooks, before the command
      after == ApplyAll(snapshot, w)
      post == IF ok THEN after ELSE snapshot
  IN [Rec("tx", w, e, IF ok THEN 1 ELSE 0, pre, post, Len(base), HookEv(hw) \o Response(e, ok), appH + 1, NoTerm, 0) EXCEPT !.hw = hw]
TxRec(w, e, ok) == TxRecH(w, e, ok, <<>>)

DoTx(w, e, ok, hw) ==
  LET r == TxRecH(w, e, ok, hw)
      base == IF open THEN evlog ELSE <<>>
  IN /\ open' = TRUE
     /\ wst' = r.st
     /\ evlog' = base \o [i \in 1..Len(r.ev) |-> [n |-> r.ev[i].n, s |-> r.ev[i].s, tx |-> (IF open THEN ntx ELSE 0) + 1, idx |-> Len(base) + i - 1]]
     /\ ntx' = (IF open THEN ntx ELSE 0) + 1
     /\ trace' = Append(trace, r)
     /\ UNCHANGED <<chain, engH>>

Tx ==
  /\ Allowed("tx") /\ CanTx
  /\ LET W == P.cells \X (0..NV)
         \* the hook's write is a function of the step (one more binary choice per transaction, not one more dimension)
         HC == CHOOSE c \in P.cells : \A d \in P.cells : c <= d
         HWs == {<<>>, <<HC, (Step % NV) + 1>>} IN
     IF Sim
     THEN \E ok \in BOOLEAN : \E hw \in {RandomElement(HWs)} :
          \E n \in {RandomElement(0..P.mw)} :
          \E a1 \in {RandomElement(W)} : \E a2 \in {RandomElement(W)} : \E a3 \in {RandomElement(W)} : \E a4 \in {RandomElement(W)} :
          \E m \in {RandomElement(0..Min(P.me, P.mo - n))} :
          \E b1 \in {RandomElement({0, 1})} : \E b2 \in {RandomElement({0, 1})} : \E b3 \in {RandomElement({0, 1})} :
            DoTx(SubSeq(<<a1, a2, a3, a4>>, 1, Min(n, 4)), SubSeq(<<b1, b2, b3>>, 1, Min(m, 3)), ok, hw)
     ELSE \E n \in 0..P.mw : \E w \in [1..n -> W] :
          \E m \in 0..Min(P.me, P.mo - n) : \E e \in [1..m -> {0, 1}] :
          \E ok \in BOOLEAN : \E hw \in HWs : DoTx(w, e, ok, hw)

CommitWith(crash) ==
  LET s == IF open THEN wst ELSE Tip.st
      r == Tree(s)
      nev == IF open THEN Len(evlog) ELSE 0
  IN /\ chain' = Append(chain, [st |-> s, root |-> r, diff |-> SS!DiffOf(AsSet(Tip.st), AsSet(s))])
     /\ engH' = IF crash THEN engH ELSE engH + 1
     /\ open' = FALSE /\ wst' = Empty /\ evlog' = <<>> /\ ntx' = 0
     /\ trace' = Append(trace, Rec(IF crash THEN "crash" ELSE "commit", <<>>, <<>>, 1, Tip.st, s, nev, <<>>, appH + 1, r, 0))

Commit == Allowed("commit") /\ CanCommit /\ CommitWith(FALSE)
Crash == Allowed("crash") /\ CanCommit /\ CommitWith(TRUE)

\* undo the recorded diffs of the heights above `to`
RECURSIVE RollFrom(_, _, _)
RollFrom(s, ch, to) ==
  IF Len(ch) - 1 <= to THEN s
  ELSE RollFrom(FromSet(SS!Revert(AsSet(s), ch[Len(ch)].diff)), SubSeq(ch, 1, Len(ch) - 1), to)
RollBack(ch, to) == RollFrom(ch[Len(ch)].st, ch, to)

Revert ==
  /\ Allowed("revert") /\ CanRevert
  /\ LET back == RollBack(chain, appH - 1) IN
     /\ chain' = SubSeq(chain, 1, Len(chain) - 1)
     /\ engH' = engH - 1
     /\ trace' = Append(trace, Rec("revert", <<>>, <<>>, 1, Tip.st, back, 0, <<>>, appH - 1, Tree(back), 0))
  /\ UNCHANGED <<open, wst, evlog, ntx>>

\* the process is restarted: a block in execution is lost; if the application is ahead of the engine
\* (crash between the application's commit and the engine's) InitRecovery reverts it to the engine's tip
Restart ==
  /\ (Allowed("restart") /\ CanRestart) \/ (Allowed("recover") /\ CanRecover)
  /\ LET back == RollBack(chain, engH) IN
     /\ chain' = SubSeq(chain, 1, engH + 1)
     /\ trace' = Append(trace, Rec("restart", <<>>, <<>>, 1, Tip.st, back, 0, <<>>, engH, Tree(back), appH - engH))
  /\ open' = FALSE /\ wst' = Empty /\ evlog' = <<>> /\ ntx' = 0
  /\ UNCHANGED engH

\* the engine comes back with an OLDER tip than the one the application has committed (its database was restored from a
\* backup, or its last writes never reached the disk): the application is k >= 1 blocks ahead, on top of the one block a
\* crash between the two commits adds; the next start must roll it back block by block to the engine's tip
CanLose == ~open /\ appH >= 2 /\ appH >= engH /\ engH >= 1
Lose ==
  /\ Allowed("lose") /\ CanLose
  /\ \E k \in 1..2 :
       /\ engH - k >= 0
       /\ engH' = engH - k
       /\ trace' = Append(trace, Rec("lose", <<>>, <<>>, 1, Tip.st, Tip.st, 0, <<>>, engH - k, chain[engH - k + 1].root, appH - (engH - k)))
  /\ UNCHANGED <<chain, open, wst, evlog, ntx>>

\* block 1 = one successful transaction writing every present cell of p, committed
PresetScript(p) ==
  LET S == Present(p) IN
  [j \in 1..Cardinality(S) |-> LET c == CHOOSE x \in S : Cardinality({y \in S : y < x}) = j - 1 IN <<c, p[c]>>]
Preset ==
  /\ Allowed("preset") /\ CanPreset
  /\ \E p \in Presets :
       LET r == TxRec(PresetScript(p), <<>>, TRUE) IN
       /\ chain' = Append(chain, [st |-> r.st, root |-> Tree(r.st), diff |-> SS!DiffOf(AsSet(Tip.st), AsSet(r.st))])
       /\ engH' = engH + 1
       /\ trace' = trace \o <<r, Rec("commit", <<>>, <<>>, 1, Tip.st, r.st, 1, <<>>, 1, Tree(r.st), 0)>>
  /\ UNCHANGED <<open, wst, evlog, ntx>>

Next == Tx \/ Commit \/ Crash \/ Revert \/ Restart \/ Lose \/ Preset
Spec == Init /\ [][Next]_vars

(* ------------------------------ properties ------------------------------ *)
Last == trace[Len(trace)]
\* a failed command leaves the state exactly as it was; a successful one applies all its writes
Atomic ==
  (Len(trace) > 0 /\ Last.op = "tx") =>
     /\ LET before == IF Last.hw = <<>> THEN Last.pre ELSE Apply(Last.pre, Last.hw) IN     \* "before the command ran"
        /\ Last.ok = 0 => Last.st = before
        /\ Last.ok = 1 => Last.st = ApplyAll(before, Last.w)
     /\ open /\ wst = Last.st
\* exactly one standard event, last, carrying the outcome; command events: all on success, the unrevertible ones on failure
EventsBookkeeping ==
  /\ (Len(trace) > 0 /\ Last.op = "tx") =>
       LET ev == Last.ev  k == Len(ev)  h == IF Last.hw = <<>> THEN 0 ELSE 1 IN
       /\ k >= 1 + h /\ ev[k].n = 0 /\ ev[k].s = Last.ok
       /\ (h = 1 => ev[1].n = -1)                          \* the hook's event survives success and failure alike
       /\ \A i \in (1 + h)..(k - 1) : ev[i].n > 0 /\ (i > 1 + h => ev[i - 1].n < ev[i].n)
       /\ {ev[i].n : i \in (1 + h)..(k - 1)} = {i \in 1..Len(Last.e) : Last.ok = 1 \/ Last.e[i] = 1}
  /\ \A i \in 1..Len(evlog) : evlog[i].idx = i - 1
  /\ \A i \in 1..Len(evlog) : \A j \in 1..Len(evlog) : (i < j) => evlog[i].tx <= evlog[j].tx
\* the root is a function of the state, with deleted cells absent from the tree
RootFunctionOfState ==
  /\ \A i \in 1..Len(chain) : chain[i].root = Tree(chain[i].st) /\ Leaves(chain[i].root) = AsSet(chain[i].st)
  /\ \A i \in 1..Len(chain) : \A j \in 1..Len(chain) : chain[i].st = chain[j].st => chain[i].root = chain[j].root
  /\ Tree(Empty) = [t |-> "E"]
\* undoing the commit diff gives the previously committed state and root
RevertInverse ==
  /\ (Len(trace) > 0 /\ Last.op \in {"revert", "restart"}) => Last.st = Tip.st /\ Last.root = Tip.root /\ Last.h = appH
  /\ \A i \in 2..Len(chain) : SS!DiffSound(AsSet(chain[i - 1].st), AsSet(chain[i].st))
\* the application is never behind the engine nor more than three blocks ahead (one by a crash, two by a lost engine tip); after recovery they agree
Heights ==
  /\ engH <= appH /\ appH <= engH + 3 /\ appH <= MaxHeight
  /\ (Len(trace) > 0 /\ Last.op = "restart") => appH = engH
  /\ (appH > engH) => ~open

(* -------------------------------- dumping -------------------------------- *)
Stuck ==
  Planned /\ ~(\/ "tx" \in P.k /\ CanTx
               \/ "commit" \in P.k /\ CanCommit
               \/ "crash" \in P.k /\ CanCommit
               \/ "revert" \in P.k /\ CanRevert
               \/ "restart" \in P.k /\ CanRestart
               \/ "recover" \in P.k /\ CanRecover
               \/ "lose" \in P.k /\ CanLose
               \/ "preset" \in P.k /\ CanPreset)
Complete == Len(trace) > 0 /\ (~Planned \/ Stuck)
DumpInv ==
  (DumpEvery > 0 /\ Complete /\ RandomElement(1..DumpEvery) = 1) => PrintT(<<"DUMP", ToJson(trace)>>)
=============================================================================
