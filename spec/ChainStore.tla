----------------------------- MODULE ChainStore -----------------------------
(***************************************************************************)
(* The block store of a node (pkg/blockchain: Chain + DataAccess + block   *)
(* cache) as the sequential object its callers rely on (property C05: the  *)
(* height / id / transaction / asset / event indexes and the cached tip    *)
(* after any number of apply / remove steps; C20 states the concurrent     *)
(* version of the same answers).                                           *)
(* The cache (last MaxCache blocks) is NOT part of the model: it is an     *)
(* implementation detail that must never be observable.  Every query of    *)
(* the store is specified as a function of the logical chain.              *)
(*   chain     sequence of blocks above genesis: [uid, ntx, nev, asset]    *)
(*   nextUid   uids name the blocks ever created (ids of the real blocks)  *)
(*   fin       the finalized-height marker written with every block        *)
(*   temp      height -> uid of the temporary block kept for that height   *)
(*   pruned    heights whose events were removed by the retention rule     *)
(* Actions = the writers of pkg/blockchain: AddBlock (saveBlock + cache),  *)
(* RemoveBlock (removeBlock + cache pop), ClearTempBlocks, and a restart   *)
(* (new Chain on the same database + PrepareCache).                        *)
(***************************************************************************)
EXTENDS Integers, Sequences, FiniteSets, TLC, Json, SequencesExt

CONSTANTS Keep,       \* KeepEventsForHeights (-1: keep all events)
          MaxLen, MaxSteps, MaxTx, MaxRestart, DumpEvery

VARIABLES chain, nextUid, fin, temp, pruned, script
vars == <<chain, nextUid, fin, temp, pruned, script>>

Tip == Len(chain)
Min2(a, b) == IF a <= b THEN a ELSE b
Max2(a, b) == IF a >= b THEN a ELSE b

Init == chain = <<>> /\ nextUid = 1 /\ fin = 0 /\ temp = [h \in {} |-> 0] /\ pruned = {} /\ script = <<>>

\* saveBlock: retention of events - heights up to min(finalized, height - Keep) lose their events
PruneBound(h, f) == IF Keep < 0 THEN 0 ELSE Min2(f, Max2(0, h - Keep))

\* the answers every reader must get in this state
View(ch, f, tp, pr) ==
  [tipH |-> Len(ch), tipUid |-> IF Len(ch) = 0 THEN 0 ELSE ch[Len(ch)].uid,
   uids |-> [i \in 1..Len(ch) |-> ch[i].uid],
   fin |-> f,
   temp |-> SetToSortSeq({<<h, tp[h]>> : h \in DOMAIN tp}, LAMBDA a, b : a[1] < b[1]),
   events |-> SetToSortSeq({i \in 1..Len(ch) : ch[i].nev > 0 /\ i \notin pr}, <)]

AddBlock ==
  /\ Len(script) < MaxSteps /\ Tip < MaxLen
  /\ \E ntx \in 0..MaxTx, nev \in 0..2, asset \in BOOLEAN, f2 \in fin..Min2(fin + 2, Tip + 1), rmTemp \in BOOLEAN :
       LET h == Tip + 1
           b == [uid |-> nextUid, ntx |-> ntx, nev |-> nev, asset |-> asset]
           m == PruneBound(h, f2)
       IN /\ chain' = Append(chain, b)
          /\ nextUid' = nextUid + 1
          /\ fin' = f2
          /\ temp' = IF rmTemp THEN [x \in (DOMAIN temp) \ {h} |-> temp[x]] ELSE temp
          /\ pruned' = IF m > 0 THEN pruned \cup 0..m ELSE pruned
          /\ script' = Append(script, [op |-> "add", uid |-> nextUid, ntx |-> ntx, nev |-> nev, asset |-> asset, fin |-> f2, rmTemp |-> rmTemp,
                                       view |-> View(chain', fin', temp', pruned')])

\* the store itself does not know about finality: the caller (deleteBlock) refuses at the finalized height
RemoveTip ==
  /\ Len(script) < MaxSteps /\ Tip > 0 /\ Tip > fin
  /\ \E saveTemp \in BOOLEAN :
       /\ chain' = SubSeq(chain, 1, Tip - 1)
       /\ temp' = IF saveTemp THEN [x \in (DOMAIN temp) \cup {Tip} |-> IF x = Tip THEN chain[Tip].uid ELSE temp[x]] ELSE temp
       /\ pruned' = pruned \ {Tip}        \* the events entry of the removed height is deleted with the block
       /\ UNCHANGED <<nextUid, fin>>
       /\ script' = Append(script, [op |-> "remove", saveTemp |-> saveTemp, view |-> View(chain', fin', temp', pruned')])

ClearTemp ==
  /\ Len(script) < MaxSteps /\ DOMAIN temp # {}
  /\ temp' = [h \in {} |-> 0]
  /\ UNCHANGED <<chain, nextUid, fin, pruned>>
  /\ script' = Append(script, [op |-> "cleartemp", view |-> View(chain', fin', temp', pruned')])

NRestart == Cardinality({i \in 1..Len(script) : script[i].op = "restart"})
Restart ==
  /\ Len(script) < MaxSteps /\ Len(script) > 0 /\ NRestart < MaxRestart
  /\ UNCHANGED <<chain, nextUid, fin, temp, pruned>>
  /\ script' = Append(script, [op |-> "restart", view |-> View(chain, fin, temp, pruned)])

\* the genesis block is never removed (at whatever height it is): an attempt on a chain without any other block is refused
\* and changes nothing
MaxGenesisRemovals == 1
NGenesisRm == Cardinality({i \in 1..Len(script) : script[i].op = "removegenesis"})
RemoveGenesis ==
  /\ Len(script) < MaxSteps /\ Tip = 0 /\ NGenesisRm < MaxGenesisRemovals
  /\ UNCHANGED <<chain, nextUid, fin, temp, pruned>>
  /\ \E saveTemp \in BOOLEAN :
       script' = Append(script, [op |-> "removegenesis", saveTemp |-> saveTemp, view |-> View(chain, fin, temp, pruned)])

Next == AddBlock \/ RemoveTip \/ RemoveGenesis \/ ClearTemp \/ Restart
Spec == Init /\ [][Next]_vars

(* ------------------------------ properties ------------------------------ *)
\* C05 at the level of the store: add followed by remove is the identity on the logical chain
Snapshots == {<<i, script[i].view>> : i \in 1..Len(script)}
UidsUnique == \A i, j \in 1..Len(chain) : i # j => chain[i].uid # chain[j].uid
FinSane == fin <= Tip + 1
TempBelowOrAtTipPlus == \A h \in DOMAIN temp : h >= 1
AddRemoveIdentity ==
  [][(\E i \in 1..Len(script') : TRUE) =>
       LET s == script' IN
       (Len(s) >= 2 /\ s[Len(s)].op = "remove" /\ s[Len(s) - 1].op = "add" /\ ~s[Len(s)].saveTemp /\ ~s[Len(s) - 1].rmTemp) =>
          (Len(s) = 2 \/ (s[Len(s)].view.uids = s[Len(s) - 2].view.uids /\ s[Len(s)].view.temp = s[Len(s) - 2].view.temp))]_vars

StoreView == <<chain, fin, temp, pruned, Len(script), NRestart, NGenesisRm>>
DumpInv ==
  (DumpEvery > 0 /\ (Len(script) = MaxSteps \/ ~ENABLED Next) /\ RandomElement(1..DumpEvery) = 1)
    => PrintT(<<"DUMP", ToJson([script |-> script])>>)
=============================================================================
