------------------------------ MODULE ConnGater ------------------------------
(***************************************************************************)
(* Peer penalties, bans, the connection gates and the RPC rate limiter     *)
(* (pkg/p2p conngater.go, peer.go, ratelimit.go) - property C18.           *)
(*                                                                         *)
(* Per IP:  st[ip] = [score, expiry (-1 = not banned, else the tick at     *)
(* which the ban expires), pen[peer][proc] (2: that peer was penalised for *)
(* proc in the current rate window, 1: in the previous one, 0: neither,    *)
(* -1: the peer never used proc before this tick)].                        *)
(* `blocked` is the permanent blacklist.  Several peers (peer ids) may sit *)
(* behind one IP: messages are counted per peer and procedure, penalties   *)
(* accumulate per IP.  An IP is ONE identity whatever its spelling (dotted,*)
(* IPv4-mapped IPv6, expanded / compressed / upper-case IPv6): spellings   *)
(* do not occur in this module at all; MCConnGater attaches one to every   *)
(* step and to the blacklist configuration of a generated schedule.        *)
(*                                                                         *)
(* Time.  `now` counts ticks.  Inside a tick the order is: the penalty /   *)
(* message actions (swept = FALSE), then - at the half tick - the periodic *)
(* expiry sweep when it is due (every `period` ticks, offset `phase`) and  *)
(* the rate-window reset, then Tick.  The window between the expiry of a   *)
(* ban and the sweep that removes it is therefore explored for every       *)
(* period/phase.  The harness maps a tick to 2 s of real time, actions to  *)
(* the middle of an even second and sweeps to the middle of an odd second. *)
(*                                                                         *)
(* The spec is exactly as strict as the statement:                         *)
(*  - before the expiry a ban must be refused by every gate; from the       *)
(*    expiry until the sweep either answer is allowed (the gates answer a  *)
(*    SET), and the implementation may lift the ban by itself (Lift);      *)
(*    after a sweep that follows the expiry the IP is clean: score 0,      *)
(*    accepted by every gate;                                              *)
(*  - a further penalty on a banned IP may or may not extend the ban;      *)
(*  - the statement does not say where the rate windows lie (aligned to    *)
(*    the start of the limiter, to the wall clock, per peer to its first   *)
(*    message, sliding).  A window is one tick long; the messages of one   *)
(*    tick arrive at one instant.  A message must NOT be penalised when    *)
(*    this and the previous tick together hold at most Limit messages of   *)
(*    that peer and procedure (no interval of one window length holds      *)
(*    more: within the limit under EVERY placement).  It MUST be penalised *)
(*    when it exceeds the limit under every placement and no penalty is    *)
(*    on record: the messages of this tick alone exceed Limit and either   *)
(*    they are the first traffic ever of that peer and procedure (a window *)
(*    anchored at an earlier message of the peer could otherwise end right *)
(*    inside the burst) or they exceed 2 * Limit (some part on one side of *)
(*    any boundary exceeds Limit).  It MAY be penalised otherwise.         *)
(*    pen[peer][proc]: -1 no traffic before this tick, 2 penalised in this *)
(*    window, 1 in the previous one, 0 neither.                            *)
(* The nondeterministic outcomes are given as successor SETS of the local  *)
(* state (PenSucc, MsgSucc, SweepSucc) so that MCConnGater can compute the *)
(* set of states allowed after every step of a schedule.                   *)
(***************************************************************************)
EXTENDS Integers, Sequences, FiniteSets, TLC

CONSTANTS IPs,          \* IP addresses (strings; one of them IPv6)
          Penalties,    \* penalty amounts
          MaxScore,     \* ban threshold (MaxPenaltyScore)
          BanTicks,     \* ban expiration in ticks
          MaxTime,      \* last tick
          SweepPeriods, \* possible sweep periods in ticks
          Blocklists,   \* possible blacklists (subsets of IPs)
          Peers,        \* peer ids behind one IP (message counters are per peer id)
          Procs,        \* RPC procedures with a message counter
          Limit,        \* messages allowed per window and procedure
          RatePenalty,  \* penalty for exceeding Limit
          Bursts,       \* numbers of messages sent by one Msg step
          ScoreCap      \* bound of the model: no penalty beyond this total

VARIABLES st, win, prevwin, blocked, now, period, phase, swept, last
vars == <<st, win, prevwin, blocked, now, period, phase, swept, last>>
View == <<st, win, prevwin, blocked, now, period, phase, swept>>   \* `last` only labels the step

NoPen == [q \in Peers |-> [p \in Procs |-> -1]]
ZeroWin == [ip \in IPs |-> [q \in Peers |-> [p \in Procs |-> 0]]]
CleanState == [score |-> 0, expiry |-> -1, pen |-> NoPen]

(* ------------------------- local (per IP) state -------------------------- *)
IsBanned(ls) == ls.expiry # -1
Expired(ls, t) == ls.expiry # -1 /\ ls.expiry <= t
Clean(ls) == [ls EXCEPT !.score = 0, !.expiry = -1]

\* a penalty of n at time t: accumulate; at the threshold the IP is banned until t + BanTicks.
\* (the implementation keeps accumulating the score while banned and restarts the expiration)
PenSucc(ls, n, t) ==
  LET s2 == ls.score + n IN
  IF s2 < MaxScore THEN {[ls EXCEPT !.score = s2]}
  ELSE IF ls.expiry = -1 THEN {[ls EXCEPT !.score = s2, !.expiry = t + BanTicks]}
  ELSE {[ls EXCEPT !.score = s2, !.expiry = e] : e \in {ls.expiry, t + BanTicks}}

\* the periodic sweep at time t + 1/2
SweepSucc(ls, t) == IF Expired(ls, t) THEN {Clean(ls)} ELSE {ls}

\* one message of peer q for procedure p; w = messages of (q, p) in this window including this one, pw = previous window
PenChoices(ls, q, p, w, pw) ==
  IF w + pw <= Limit THEN {FALSE}
  ELSE IF w > Limit /\ (ls.pen[q][p] = -1 \/ (ls.pen[q][p] = 0 /\ w > 2 * Limit)) THEN {TRUE}
  ELSE {TRUE, FALSE}
MsgSucc(ls, q, p, w, pw, t) ==
  UNION {IF b THEN {[x EXCEPT !.pen[q][p] = 2] : x \in PenSucc(ls, RatePenalty, t)} ELSE {ls}
         : b \in PenChoices(ls, q, p, w, pw)}
RECURSIVE BurstSucc(_, _, _, _, _, _, _)
BurstSucc(S, q, p, w, pw, t, k) ==       \* k messages after w earlier ones in this window
  IF k = 0 THEN S
  ELSE BurstSucc(UNION {MsgSucc(x, q, p, w + 1, pw, t) : x \in S}, q, p, w + 1, pw, t, k - 1)

\* answers a gate may give for an address of ip (TRUE = allow)
GateLocal(ls, isBlocked, t) ==
  IF isBlocked THEN {FALSE}
  ELSE IF ls.expiry = -1 THEN {TRUE}
  ELSE IF t < ls.expiry THEN {FALSE}
  ELSE {TRUE, FALSE}

(* -------------------------------- actions -------------------------------- *)
Kinds == {"AddrDial", "Accept", "Secured"}     \* outbound dial; inbound accept; inbound after the handshake
Intercept(kind, ip) == GateLocal(st[ip], ip \in blocked, now)   \* the same rule for every gate

SweepDue == now % period = phase
Act(a, ip, n, p, k, q) == [a |-> a, ip |-> ip, n |-> n, proc |-> p, k |-> k, peer |-> q]

Init ==
  /\ st = [ip \in IPs |-> CleanState]
  /\ win = ZeroWin /\ prevwin = ZeroWin
  /\ blocked \in Blocklists
  /\ now = 0 /\ swept = FALSE
  /\ period \in SweepPeriods /\ phase \in 0..(period - 1)
  /\ last = Act("init", "-", 0, "-", 0, "-")

AddPenalty(ip, n) ==
  /\ ~swept /\ st[ip].score + n <= ScoreCap
  /\ \E x \in PenSucc(st[ip], n, now) : st' = [st EXCEPT ![ip] = x]
  /\ last' = Act("pen", ip, n, "-", 0, "-")
  /\ UNCHANGED <<win, prevwin, blocked, now, period, phase, swept>>

Ban(ip) ==
  /\ ~swept /\ st[ip].score + MaxScore <= ScoreCap
  /\ \E x \in PenSucc(st[ip], MaxScore, now) : st' = [st EXCEPT ![ip] = x]
  /\ last' = Act("ban", ip, MaxScore, "-", 0, "-")
  /\ UNCHANGED <<win, prevwin, blocked, now, period, phase, swept>>

Msg(ip, q, p, k) ==
  /\ ~swept /\ st[ip].score + k * RatePenalty <= ScoreCap /\ win[ip][q][p] + k <= 2 * (Limit + 1)
  /\ \E x \in BurstSucc({st[ip]}, q, p, win[ip][q][p], prevwin[ip][q][p], now, k) : st' = [st EXCEPT ![ip] = x]
  /\ win' = [win EXCEPT ![ip][q][p] = @ + k]
  /\ last' = Act("msg", ip, 0, p, k, q)
  /\ UNCHANGED <<prevwin, blocked, now, period, phase, swept>>

\* the implementation may lift an expired ban by itself at any moment
Lift(ip) ==
  /\ Expired(st[ip], now)
  /\ st' = [st EXCEPT ![ip] = Clean(@)]
  /\ last' = Act("lift", ip, 0, "-", 0, "-")
  /\ UNCHANGED <<win, prevwin, blocked, now, period, phase, swept>>

Sweep ==
  /\ ~swept /\ SweepDue
  /\ st' = [ip \in IPs |-> CHOOSE x \in SweepSucc(st[ip], now) : TRUE]
  /\ swept' = TRUE
  /\ last' = Act("sweep", "-", 0, "-", 0, "-")
  /\ UNCHANGED <<win, prevwin, blocked, now, period, phase>>

\* w = the message counts of the window that ends
TickLocal(ls, w) ==
  [ls EXCEPT !.pen = [q \in Peers |-> [p \in Procs |->
     IF ls.pen[q][p] > 0 THEN ls.pen[q][p] - 1 ELSE IF ls.pen[q][p] = -1 /\ w[q][p] = 0 THEN -1 ELSE 0]]]
Tick ==       \* includes the reset of the rate windows (IntervalReset)
  /\ now < MaxTime /\ (SweepDue => swept)
  /\ now' = now + 1 /\ swept' = FALSE
  /\ prevwin' = win /\ win' = ZeroWin
  /\ st' = [ip \in IPs |-> TickLocal(st[ip], win[ip])]
  /\ last' = Act("tick", "-", 0, "-", 0, "-")
  /\ UNCHANGED <<blocked, period, phase>>

Next ==
  \/ \E ip \in IPs : (\E n \in Penalties : AddPenalty(ip, n)) \/ Ban(ip) \/ Lift(ip)
  \/ \E ip \in IPs, q \in Peers, p \in Procs, k \in Bursts : Msg(ip, q, p, k)
  \/ Sweep \/ Tick
Spec == Init /\ [][Next]_vars

(* ------------------------------ properties ------------------------------ *)
TypeOK ==
  /\ \A ip \in IPs : st[ip].score \in 0..ScoreCap /\ st[ip].expiry \in -1..(MaxTime + BanTicks)
  /\ blocked \subseteq IPs /\ now \in 0..MaxTime /\ swept \in BOOLEAN

\* a total at or above the threshold means banned
ThresholdBans == \A ip \in IPs : st[ip].score >= MaxScore => IsBanned(st[ip])
BannedHasScore == \A ip \in IPs : IsBanned(st[ip]) => st[ip].score >= MaxScore
\* a blacklisted IP and an IP with an unexpired ban are refused by every gate
BlockedRefused == \A ip \in blocked, kd \in Kinds : Intercept(kd, ip) = {FALSE}
BannedRefused ==
  \A ip \in IPs, kd \in Kinds : (IsBanned(st[ip]) /\ now < st[ip].expiry) => Intercept(kd, ip) = {FALSE}
\* an IP that is neither banned nor blacklisted is accepted by every gate
CleanAccepted ==
  \A ip \in IPs \ blocked, kd \in Kinds : ~IsBanned(st[ip]) => Intercept(kd, ip) = {TRUE}
\* bans expire: right after a sweep only unexpired bans remain; a ban outlives its expiry by less than a period
SweptClean == swept => \A ip \in IPs : IsBanned(st[ip]) => now < st[ip].expiry
BanBounded == \A ip \in IPs : IsBanned(st[ip]) => now < st[ip].expiry + period
\* rate limiter: a penalty in this window implies more than Limit messages of that peer and procedure within two
\* adjacent windows (the traffic of another peer behind the same IP does not count); more than Limit messages in the
\* first window with traffic, or more than 2 * Limit in any window, imply a penalty on record
WithinLimitNeverPenalised ==
  \A ip \in IPs, q \in Peers, p \in Procs : st[ip].pen[q][p] = 2 => win[ip][q][p] + prevwin[ip][q][p] > Limit
AboveLimitPenalised ==
  \A ip \in IPs, q \in Peers, p \in Procs :
     win[ip][q][p] > Limit => (st[ip].pen[q][p] # -1 /\ (win[ip][q][p] > 2 * Limit => st[ip].pen[q][p] > 0))

\* a ban is lifted only after its expiry and leaves a clean score
LiftOnlyAfterExpiry ==
  [][\A ip \in IPs : (IsBanned(st[ip]) /\ ~IsBanned(st'[ip])) => (Expired(st[ip], now) /\ st'[ip].score = 0)]_vars
\* scores only grow through penalties on that IP and are only reset by the expiry of a ban
ScoreOnlyByPenalty ==
  [][\A ip \in IPs : st'[ip].score # st[ip].score =>
        \/ st'[ip].score > st[ip].score /\ last'.ip = ip /\ last'.a \in {"pen", "ban", "msg"}
        \/ st'[ip].score = 0 /\ Expired(st[ip], now)]_vars
\* the blacklist never changes
BlacklistPermanent == [][blocked' = blocked]_vars
=============================================================================
