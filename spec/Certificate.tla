---------------------------- MODULE Certificate ----------------------------
(***************************************************************************)
(* Certificates (property C06) on top of the node model: for the state at  *)
(* the end of a Node script                                                *)
(*   VerifyTable   every aggregate commit candidate [h, signers, kind]     *)
(*                 with the verdict of ACOk (Node.tla) - soundness:        *)
(*                 accepted only if the height lies in                     *)
(*                 (certified, min(precommitted, next params - 1)], the    *)
(*                 signers are validators of that height with weight >=    *)
(*                 that height's certificate threshold, and the signature  *)
(*                 is over the node's own block at that height             *)
(*   PoolCases     sets of certifying validators: the aggregate the node   *)
(*                 assembles from its pool must be accepted by its own     *)
(*                 verification (completeness); the expected certifiable   *)
(*                 height is informational                                 *)
(*   MultiPool     the same with a DIFFERENT certifier set at every height *)
(*                 of the certifiable window (light at the top, heavy      *)
(*                 below, ...)                                             *)
(*   SingleCases   single commits [v, h, ref, sig] with "may enter the     *)
(*                 pool" = v active at h /\ block is the node's own block  *)
(*                 at h /\ signature valid (admission soundness; the node  *)
(*                 may discard more, never admit less)                     *)
(* and, as actions of their own that extend the Node script (CertSpec):    *)
(*   RecvMsg       a gossip message of 1-3 single commits, hand-encoded:   *)
(*                 block id and height of different blocks, the signature  *)
(*                 of another active validator under the claimed address,  *)
(*                 malformed lengths; "may enter the pool" per commit      *)
(*   CertifyStep   validators certify (Certify + gossip)                   *)
(*   TickStep      the certificate broadcast tick (clean-up, selection)    *)
(*   AssembleStep  GetAggregateCommit: what the node assembles from its    *)
(*                 pool - filled EARLIER, before blocks were added,        *)
(*                 removed and replaced - passes its own verification      *)
(* DirSpec is one directed chain (longer than 100 blocks in its long form).*)
(***************************************************************************)
EXTENDS Node

\* besides a certificate of another block altogether: certificates that differ from the node's block in exactly one of the
\* fields LIP-0061 puts under the signature (the block id covers the header, so these can only be forged - they must not verify)
Kinds == {"valid", "badsig", "wrongblock", "wrong-vhash", "wrong-stateroot", "wrong-timestamp"}
\* an aggregate commit with only one of its two parts: aggregation bits without a signature, a signature without bits
HalfKinds == {"halfempty-nosig", "halfempty-nobits"}
Signable(h) == h >= 1 /\ h <= Tip.h      \* heights for which the node has a block of its own to certify

\* signer / certifier sets: all of them for small validator sets, a family that still brackets every threshold for large ones
\* (prefixes, everybody but one, singletons) - 8 and 16 validators make the aggregation bitmap end on a byte boundary,
\* 9..15 give a second, partly used byte
SignerFamily ==
  IF NVal <= 5 THEN (SUBSET Validators) \ {{}}
  ELSE {{v \in Validators : v <= k} : k \in Validators} \cup {Validators \ {v} : v \in Validators} \cup {{v} : v \in Validators}

\* parameters may have been pruned for old heights
ActiveS(h) == IF HasParamsAt(V.params, h) THEN Active(V, h) ELSE {}
Heavy(h, S) == HasParamsAt(V.params, h) /\ WeightOf(S, ParamsAt(V.params, h).w) >= ParamsAt(V.params, h).certT
\* the signer set alone would do: validators of the height whose weight reaches the height's threshold
SoundSigners(h, S) == Signable(h) /\ S # {} /\ S \subseteq ActiveS(h) /\ Heavy(h, S)

NextP == NextParamsHeight(V.params, V.cert + 1)
CertTop == IF NextP = 0 THEN V.mhpc ELSE Min2(NextP - 1, V.mhpc)
CertWindow == (V.cert + 1)..CertTop            \* the heights an aggregate commit may certify now

Near(x, below, above) == {y \in 0..(Tip.h + 1) : y >= x - below /\ y <= x + above}
\* all heights on short chains; on long ones the neighbourhood of every bound the rule mentions
TableHeights ==
  IF Tip.h <= 20 /\ NVal <= 8 THEN 0..(Tip.h + 1)
  ELSE {0, 1, Tip.h, Tip.h + 1} \cup Near(V.cert, 1, 2) \cup Near(V.mhpc, 1, 2) \cup (IF NextP = 0 THEN {} ELSE Near(NextP, 2, 1))

Row(h, S, k) ==
  [h |-> h, signers |-> SetToSortSeq(S, <), kind |-> k, ss |-> SoundSigners(h, S),
   expect |-> ACOk(V, [h |-> h, kind |-> k, signers |-> S])]

VerifyTable ==
  {Row(h, S, k) : h \in TableHeights, S \in SignerFamily, k \in Kinds}
    \cup {Row(h, {}, "empty") : h \in TableHeights}
    \cup UNION {{Row(h, S, k) : S \in {T \in SignerFamily : SoundSigners(h, T)} \cup {Validators}, k \in HalfKinds} : h \in TableHeights}

\* highest height the pool of a certifier set S could certify (informational)
Certifiable(S) ==
  LET ok == {h \in CertWindow : Heavy(h, S \cap ActiveS(h))}
  IN IF ok = {} THEN V.cert ELSE CHOOSE h \in ok : \A x \in ok : x <= h

PoolCases == {[certifiers |-> SetToSortSeq(S, <), height |-> Certifiable(S)] : S \in SignerFamily}

\* a different certifier set per height: the two (three) highest certifiable heights, every pair (triple) of sets of validators
\* active there.  The driver samples from this set.
MultiFamily(h) ==
  IF NVal <= 5 THEN {S \in SignerFamily : S \subseteq ActiveS(h)}
  ELSE {S \in {{v \in Validators : v <= k} : k \in {NVal \div 3, NVal \div 2, NVal - 1, NVal}} : S # {} /\ S \subseteq ActiveS(h)}
MultiHeight(f) ==
  LET ok == {h \in DOMAIN f : Heavy(h, f[h])} IN IF ok = {} THEN V.cert ELSE CHOOSE h \in ok : \A x \in ok : x <= h
MultiPool ==
  IF CertTop < V.cert + 2 THEN {}
  ELSE LET hi == CertTop  lo == CertTop - 1 IN
       {[sets |-> <<[h |-> hi, certifiers |-> SetToSortSeq(A, <)], [h |-> lo, certifiers |-> SetToSortSeq(B, <)]>>,
         height |-> MultiHeight(hi :> A @@ lo :> B)] : A \in MultiFamily(hi), B \in MultiFamily(lo)}
       \cup (IF CertTop < V.cert + 3 THEN {}
             ELSE {[sets |-> <<[h |-> hi, certifiers |-> SetToSortSeq(A, <)], [h |-> lo, certifiers |-> SetToSortSeq(A, <)],
                              [h |-> lo - 1, certifiers |-> SetToSortSeq(B, <)]>>,
                    height |-> MultiHeight(hi :> A @@ lo :> A @@ (lo - 1) :> B)] :
                      A \in {S \in MultiFamily(hi) : S \subseteq ActiveS(lo) /\ ~Heavy(hi, S)}, B \in MultiFamily(lo - 1)})

SingleHeights ==
  IF Tip.h <= 20 THEN 1..(Tip.h + 1)
  ELSE ({1, 2, Tip.h, Tip.h + 1} \cup Near(V.mhpc - 100, 2, 2) \cup Near(V.mhpc, 2, 1) \cup Near(V.cert, 1, 1)
        \cup {h \in 1..Tip.h : ExistParams(V.params, h)}) \ {0}

SingleCases ==
  {[v |-> v, h |-> h, ref |-> r, sig |-> s,
    mayEnter |-> (Signable(h) /\ HasParamsAt(V.params, h) /\ v \in ActiveS(h) /\ r = "own" /\ s = "ok")] :
      v \in Validators, h \in SingleHeights, r \in {"own", "other"}, s \in {"ok", "bad"}}

StateJson == [tip |-> Tip.h, cert |-> V.cert, mhpc |-> V.mhpc, nextParams |-> NextP]
FullDump ==
  PrintT(<<"DUMP", ToJson([script |-> script, verify |-> SetToSeq(VerifyTable), pool |-> SetToSeq(PoolCases),
                           mpool |-> SetToSeq(MultiPool), singles |-> SetToSeq(SingleCases), state |-> StateJson])>>)

DumpCert ==
  (DumpEvery > 0 /\ Len(script) > 0 /\ (V.mhpc > V.cert \/ RandomElement(1..8) = 1) /\ RandomElement(1..DumpEvery) = 1) => FullDump

(* ----------------------------------------------------------------------- *)
(* SubmitValid (Node.tla) offers every valid successor; the directed parts *)
(* below need one of a handful.  SubmitCand(c) is the body of SubmitValid  *)
(* for a given candidate (same effect, same script step), so that TLC does *)
(* not have to build the hundreds of successors a wide certifiable window  *)
(* gives only to discard them; CandsAreValid ties the candidates back to   *)
(* ValidCands on short chains.                                             *)
(* ----------------------------------------------------------------------- *)
EmptyAc == [h |-> V.cert, kind |-> "empty", signers |-> {}]
BestAc == [h |-> CertTop, kind |-> "valid", signers |-> ActiveS(CertTop)]      \* only when CertWindow # {}
Cand(s, chg, ac) ==
  LET g == GenAt(V, Tip.h + 1, s) IN
  [version |-> 2, h |-> Tip.h + 1, prev |-> "tip", slot |-> s, gen |-> g, signer |-> g, sig |-> "ok", mhp |-> V.mhpv,
   mhg |-> LastForged(g), ac |-> ac, txRoot |-> "ok", assetRoot |-> "ok", eventRoot |-> "ok", stateRoot |-> "ok", vhash |-> "ok",
   txStatic |-> "ok", payload |-> "ok", chg |-> chg, ntx |-> 0, mut |-> "none"]
SubmitCand(c) ==
  /\ Len(chain) < MaxLen /\ Len(script) < MaxSteps /\ c.slot <= Now
  /\ Accept(c)
  /\ LET v2 == AfterBlock(c)
         f2 == Max2(fin, v2.mhpc)
         ne == (IF v2.mhpc > fin THEN <<<<"finalize", fin, v2.mhpc>>>> ELSE <<>>) \o <<<<"new", c.h, 0>>>>
               \o (IF c.chg # 0 THEN <<<<"validators", c.h, 0>>>> ELSE <<>>)
     IN /\ chain' = Append(chain, [h |-> c.h, slot |-> c.slot, gen |-> c.gen, mhg |-> c.mhg, mhp |-> c.mhp, chg |-> c.chg, ntx |-> c.ntx])
        /\ vstack' = Append(vstack, v2)
        /\ fin' = f2
        /\ evlog' = evlog \o ne
        /\ temp' = temp
        /\ script' = Append(script, Step(c, TRUE, chain', vstack', f2, temp, evlog', ne))
        /\ recvKnown' = TRUE
CandsAreValid ==
  (Len(chain) <= 6 /\ Tip.slot + 2 <= Now)
    => \A s \in {Tip.slot + 1, Tip.slot + 2} : \A chg \in {x \in 0..Len(ParamChoices) : x = 0 \/ NChg < MaxChg} :
         /\ Cand(s, chg, EmptyAc) \in ValidCands
         /\ CertWindow # {} => Cand(s, chg, BestAc) \in ValidCands

(* ----------------------------------------------------------------------- *)
(* Histories: the certificate pool lives through later changes of the      *)
(* chain.  The new steps only extend the script (the node state they act   *)
(* on is the one the Node actions maintain); what the pool must hold is    *)
(* not prescribed - the node may discard more - only what may enter it and *)
(* that whatever the node assembles from it passes its own verification.   *)
(* TLC picks among the successors uniformly, so every step offers a small, *)
(* state-dependent selection (Salt) instead of its whole family.           *)
(* ----------------------------------------------------------------------- *)
HistMaxMsgs == 4
HistMaxCertify == 3
HistMaxTicks == 3
HistMaxAsm == 2
HistOps == {"commits", "certify", "tick", "assemble"}

LastOp == IF Len(script) = 0 THEN "none" ELSE script[Len(script)].op
NOp(o) == Cardinality({i \in 1..Len(script) : script[i].op = o})
SetMax(S) == CHOOSE x \in S : \A y \in S : y <= x
SetMin(S) == CHOOSE x \in S : \A y \in S : x <= y
\* the script step that put the current block of height h on the chain (a later step at the same height replaced it)
BlockSteps(h) == {i \in 1..Len(script) : script[i].op \in {"block", "tiebreak"} /\ script[i].accepted /\ script[i].h = h}
BlockStepIdx(h) == IF BlockSteps(h) = {} THEN 0 ELSE SetMax(BlockSteps(h))

Salt == Len(script) + 3 * Tip.slot + 5 * Tip.h
PickN(S, i) == LET q == SetToSortSeq(S, <) IN q[(i % Len(q)) + 1]          \* S: a non-empty set of integers
OtherOf(S, x) == IF S \ {x} = {} THEN x ELSE PickN(S \ {x}, Salt + x)
BitSet(i) == {v \in Validators : (i \div (2 ^ (v - 1))) % 2 = 1}

LenDevs == <<"sig0", "sig95", "sig97", "id0", "id31", "id33", "addr0", "addr19", "addr21">>
\* (the deviations that need a particular state - another active validator, another height, an inactive validator - twice)
Devs == <<"badsig", "otherblock", "foreign-sig", "height-mismatch", "inactive", "future", "foreign-sig", "height-mismatch", "inactive">> \o LenDevs

\* a single commit as it travels: claimed validator v, the validator whose BLS key signed, the height field h, the height bh
\* of the own block whose id and certificate are used (ref = "own") or a block that is not on the node's chain ("other"),
\* a signature for this chain or another one, well-formed lengths or one field of a wrong length
Good(v, h) == [v |-> v, signer |-> v, h |-> h, bh |-> h, ref |-> "own", sig |-> "ok", len |-> "ok", dev |-> "none"]
Deviate(v, h, d) ==
  LET g == [Good(v, h) EXCEPT !.dev = d] IN
  CASE d = "badsig" -> [g EXCEPT !.sig = "bad"]
    [] d = "otherblock" -> [g EXCEPT !.ref = "other"]
    \* another active validator's signature: the generator of that block when it is not v itself
    [] d = "foreign-sig" -> [g EXCEPT !.signer = IF h <= Len(chain) /\ chain[h].gen # v /\ chain[h].gen \in ActiveS(h) THEN chain[h].gen
                                                 ELSE OtherOf(IF ActiveS(h) = {} THEN Validators ELSE ActiveS(h), v)]
    [] d = "height-mismatch" -> [g EXCEPT !.bh = OtherOf(1..Tip.h, h)]
    [] d = "inactive" -> LET ina == Validators \ ActiveS(h) IN
                         IF ina = {} THEN [g EXCEPT !.sig = "bad"] ELSE [g EXCEPT !.v = PickN(ina, Salt), !.signer = PickN(ina, Salt)]
    [] d = "future" -> [g EXCEPT !.h = Tip.h + 1, !.bh = Tip.h + 1]
    [] OTHER -> [g EXCEPT !.len = d]

MayEnter(c) ==
  /\ c.len = "ok" /\ c.ref = "own" /\ c.bh = c.h /\ c.sig = "ok" /\ c.signer = c.v
  /\ Signable(c.h) /\ c.v \in ActiveS(c.h)
\* admissible although the block is not final yet (step 3 of the rule admits heights that carry new parameters)
HotHeights == {h \in 1..Tip.h : h > V.mhpc /\ ExistParams(V.params, h)}
WinHeights == {h \in 1..Tip.h : h > V.cert /\ h <= V.mhpc}
\* heights whose commits get as far as the checks of block, validator and signature in the first 100 heights of a chain
AdmHeights == {h \in 1..Tip.h : h > V.cert /\ ExistParams(V.params, h)}
WithExpect(c) == [v |-> c.v, signer |-> c.signer, h |-> c.h, bh |-> c.bh, ref |-> c.ref, sig |-> c.sig, len |-> c.len, dev |-> c.dev,
                  mayEnter |-> MayEnter(c), hot |-> (c.h \in HotHeights)]

\* two commits for heights under DIFFERENT parameters: a good one, then one by a validator that is not active at its own height
\* but is at the height of the first (its own signature, its own block); without such a pair of heights: two good ones
CrossPairs == {<<a, b>> \in AdmHeights \X AdmHeights : (ActiveS(a) \ ActiveS(b)) # {}}
CrossMsg ==
  IF CrossPairs = {} THEN <<Good(PickN(Validators, Salt), PickN(1..Tip.h, Salt)), Good(PickN(Validators, Salt + 1), PickN(1..Tip.h, Salt + 1))>>
  ELSE LET p == CHOOSE q \in CrossPairs : TRUE
           v == PickN(ActiveS(p[1]) \ ActiveS(p[2]), Salt)
       IN <<Good(PickN(ActiveS(p[1]), Salt + 1), p[1]), [Good(v, p[2]) EXCEPT !.dev = "inactive"]>>

MsgVariant(k) ==
  LET h1 == PickN(IF HotHeights # {} THEN HotHeights ELSE IF WinHeights # {} THEN WinHeights ELSE 1..Tip.h, Salt + k)
      v1 == PickN(IF ActiveS(h1) = {} THEN Validators ELSE ActiveS(h1), Salt + k)
      h2 == PickN(IF WinHeights # {} THEN WinHeights ELSE 1..Tip.h, Salt + 2 * k)
      v2 == PickN(IF ActiveS(h2) = {} THEN Validators ELSE ActiveS(h2), Salt + k + 1)
      h3 == PickN(IF AdmHeights # {} /\ k % 3 # 0 THEN AdmHeights ELSE 1..Tip.h, Salt + 3 * k)
      v3 == PickN(Validators, Salt + 2 * k + 1)
      g1 == Good(v1, h1)  g2 == Good(v2, h2)  b == Deviate(v3, h3, Devs[((Salt + k) % Len(Devs)) + 1])
  IN CASE k = 1 -> <<g1>> [] k = 2 -> <<g1, b>> [] k = 3 -> <<b, g1>> [] k = 4 -> <<g1, g2, b>> [] k = 5 -> <<b>> [] k = 6 -> <<g1, g2>>
       [] OTHER -> CrossMsg


HistUnchanged == UNCHANGED <<chain, vstack, fin, temp, evlog, recvKnown>>

RecvMsg ==
  /\ Len(script) < MaxSteps /\ Len(chain) > 0 /\ NOp("commits") < HistMaxMsgs /\ HistUnchanged
  /\ \E k \in {((Salt + j) % 7) + 1 : j \in {0, 2, 3}} :
       script' = Append(script, [op |-> "commits", commits |-> [i \in 1..Len(MsgVariant(k)) |-> WithExpect(MsgVariant(k)[i])]])

\* heights for which a commit was fed that could enter the pool ...
FedBefore(h, replaced) ==
  \E i \in 1..Len(script) : /\ script[i].op = "commits"
                            /\ (IF replaced THEN BlockStepIdx(h) > i ELSE BlockStepIdx(h) < i)
                            /\ \E j \in 1..Len(script[i].commits) :
                                 script[i].commits[j].mayEnter /\ script[i].commits[j].h = h /\ script[i].commits[j].hot
\* ... while its block could still be replaced, and the block is still there
FedHot == {h \in 1..Tip.h : h > fin /\ FedBefore(h, FALSE)}
\* ... and whose block was replaced afterwards
StaleHeights == {h \in 1..Tip.h : FedBefore(h, TRUE)}
Ripe == (StaleHeights \cap CertWindow) # {} /\ NOp("assemble") < HistMaxAsm

AfterDelete == LastOp = "delete" /\ script[Len(script)].ok
DeletedSlot == IF BlockSteps(Tip.h + 1) = {} THEN 0 ELSE script[SetMax(BlockSteps(Tip.h + 1))].slot

\* blocks of a history: no payload, the next slot (after a removal: another slot than the removed block's, so that the new
\* block differs from it), an aggregate commit only while a pending change of parameters blocks the certifiable window
HistBlock ==
  \E chg \in {x \in 0..Len(ParamChoices) : x = 0 \/ NChg < MaxChg} :
    SubmitCand(Cand(IF AfterDelete /\ DeletedSlot = Tip.slot + 1 THEN Tip.slot + 2 ELSE Tip.slot + 1, chg,
                    IF CertWindow # {} /\ NextP # 0 THEN BestAc ELSE EmptyAc))

CertifyStep(limit) ==
  /\ Len(script) < MaxSteps /\ V.mhpc > V.cert /\ NOp("certify") < limit /\ LastOp # "certify" /\ HistUnchanged
  /\ \E S \in {Validators, BitSet((Salt % (2 ^ NVal - 1)) + 1)} : \E g \in BOOLEAN :
       script' = Append(script, [op |-> "certify", certifiers |-> SetToSortSeq(S, <), gossip |-> g, from |-> V.cert, to |-> V.mhpc])

TickStep ==
  /\ Len(script) < MaxSteps /\ Len(chain) > 0 /\ NOp("tick") < HistMaxTicks /\ LastOp # "tick" /\ HistUnchanged
  /\ script' = Append(script, [op |-> "tick"])

AssembleStep ==
  /\ Len(script) < MaxSteps /\ NOp("assemble") < HistMaxAsm /\ NOp("certify") + NOp("commits") > 0 /\ LastOp # "assemble" /\ HistUnchanged
  /\ script' = Append(script, [op |-> "assemble", stale |-> SetToSortSeq(StaleHeights \cap CertWindow, <), cert |-> V.cert, top |-> CertTop])

CertNext ==
  IF FedHot # {} /\ NDel < MaxDel THEN DeleteTip                      \* the block a commit was just admitted for is replaced
  ELSE IF AfterDelete THEN HistBlock
  ELSE IF Ripe THEN \/ CertifyStep(100) \/ TickStep                   \* a height with a commit for a replaced block is certifiable
                    \/ (LastOp \in {"certify", "tick"} /\ NOp("certify") > 0 /\ AssembleStep)
  ELSE IF LastOp \in (HistOps \ {"certify"}) /\ Len(chain) < MaxLen THEN HistBlock
  ELSE HistBlock \/ RecvMsg \/ TickStep \/ CertifyStep(HistMaxCertify) \/ AssembleStep
CertSpec == Init /\ [][CertNext]_vars

DumpHist ==
  (Len(script) > 0 /\ LastOp = "assemble")
    => PrintT(<<"DUMP", ToJson([script |-> script, hist |-> TRUE, state |-> StateJson,
                                stale |-> script[Len(script)].stale, nblocks |-> NOp("block"), ndel |-> NDel])>>)

(* ----------------------------------------------------------------------- *)
(* One directed chain: consecutive slots, no payload, new parameters after *)
(* the blocks DirChgAt, aggregate commits (the highest certifiable height, *)
(* all its validators) only in the blocks DirCertAt.  With the defaults:   *)
(* a change whose height lies inside the finalized, uncertified range      *)
(* (classes "beyond the next parameters", "block preceding the change"),   *)
(* then certificates by the new, smaller validator set; in the long form   *)
(* the chain goes on without certificates beyond 100 blocks, so that the   *)
(* commit window [precommitted - 100, precommitted] has a lower end.       *)
(* ----------------------------------------------------------------------- *)
DirLen == 14
DirChgAt == {3}
DirCertAt == 9..14
DirNext ==
  /\ Len(chain) < DirLen
  /\ SubmitCand(Cand(Tip.slot + 1, IF Tip.h + 1 \in DirChgAt THEN 1 ELSE 0,
                     IF Tip.h + 1 \in DirCertAt /\ CertWindow # {} THEN BestAc ELSE EmptyAc))
DirSpec == Init /\ [][DirNext]_vars
\* the states the directed chain is built for
DirBeyond == NextP # 0 /\ V.cert + 2 <= NextP /\ NextP <= V.mhpc
DirAfterChange == V.cert >= SetMin(DirChgAt) /\ V.mhpc > V.cert /\ Len(chain) <= 20
DirLong == Len(chain) = DirLen /\ DirLen > 100
DumpDir == (Len(script) > 0 /\ (DirBeyond \/ DirAfterChange \/ DirLong)) => FullDump
=============================================================================
