---------------------------- MODULE Certificate ----------------------------
(***************************************************************************)
(* Certificates (property C06) on top of the node model: for the state at  *)
(* the end of a Node script                                                *)
(*   VerifyTable   every aggregate commit candidate [h, signers, kind]     *)
(*                 with the verdict of ACOk (Node.tla) - soundness:        *)
(*                 accepted only if the height lies in                     *)
(*                 (certified, min(precommitted, next params - 1)], the    *)
(*                 signers are validators of that height with weight >=    *)
(*                 that height's certificate threshold, and the signature  *)
(*                 is over the node's own block at that height             *)
(*   PoolCases     sets of certifying validators: the aggregate the node   *)
(*                 assembles from its pool must be accepted by its own     *)
(*                 verification (completeness); the expected certifiable   *)
(*                 height is informational                                 *)
(*   SingleCases   single commits [v, h, ref, sig] with "may enter the     *)
(*                 pool" = v active at h /\ block is the node's own block  *)
(*                 at h /\ signature valid (admission soundness; the node  *)
(*                 may discard more, never admit less)                     *)
(***************************************************************************)
EXTENDS Node

\* besides a certificate of another block altogether: certificates that differ from the node's block in exactly one of the
\* fields LIP-0061 puts under the signature (the block id covers the header, so these can only be forged - they must not verify)
Kinds == {"valid", "badsig", "wrongblock", "wrong-vhash", "wrong-stateroot", "wrong-timestamp"}
Signable(h) == h >= 1 /\ h <= Tip.h      \* heights for which the node has a block of its own to certify

\* signer / certifier sets: all of them for small validator sets, a family that still brackets every threshold for large ones
\* (prefixes, everybody but one, singletons) - 8 and 16 validators make the aggregation bitmap end on a byte boundary
SignerFamily ==
  IF NVal <= 5 THEN (SUBSET Validators) \ {{}}
  ELSE {{v \in Validators : v <= k} : k \in Validators} \cup {Validators \ {v} : v \in Validators} \cup {{v} : v \in Validators}

VerifyTable ==
  {[h |-> h, signers |-> SetToSortSeq(S, <), kind |-> k,
    expect |-> ACOk(V, [h |-> h, kind |-> k, signers |-> S])] :
      h \in 0..(Tip.h + 1), S \in SignerFamily, k \in Kinds}

\* highest height the pool of a certifier set S could certify (informational)
Certifiable(S) ==
  LET nx == NextParamsHeight(V.params, V.cert + 1)
      top == IF nx = 0 THEN V.mhpc ELSE Min2(nx - 1, V.mhpc)
      ok == {h \in (V.cert + 1)..top : WeightOf(S \cap Active(V, h), ParamsAt(V.params, h).w) >= ParamsAt(V.params, h).certT}
  IN IF ok = {} THEN V.cert ELSE CHOOSE h \in ok : \A x \in ok : x <= h

PoolCases == {[certifiers |-> SetToSortSeq(S, <), height |-> Certifiable(S)] : S \in SignerFamily}

SingleCases ==
  {[v |-> v, h |-> h, ref |-> r, sig |-> s,
    mayEnter |-> (Signable(h) /\ HasParamsAt(V.params, h) /\ v \in Active(V, h) /\ r = "own" /\ s = "ok")] :
      v \in Validators, h \in 1..(Tip.h + 1), r \in {"own", "other"}, s \in {"ok", "bad"}}

DumpCert ==
  (DumpEvery > 0 /\ Len(script) > 0 /\ (V.mhpc > V.cert \/ RandomElement(1..8) = 1) /\ RandomElement(1..DumpEvery) = 1)
    => PrintT(<<"DUMP", ToJson([script |-> script, verify |-> SetToSeq(VerifyTable), pool |-> SetToSeq(PoolCases),
                                singles |-> SetToSeq(SingleCases),
                                state |-> [tip |-> Tip.h, cert |-> V.cert, mhpc |-> V.mhpc, nextParams |-> NextParamsHeight(V.params, V.cert + 1)]])>>)
=============================================================================
