------------------------------ MODULE Handover ------------------------------
(***************************************************************************)
(* The operator interface of block generation (pkg/engine/endpoint         *)
(* generator_endpoint.go: setKeys / hasKeys / getStatus / setStatus /      *)
(* updateStatus) composed with the generator's persisted GeneratorInfo     *)
(* (pkg/generator initBlockHeader / forge) on SEVERAL nodes: the protocol  *)
(* by which one validator is moved from one node to another without ever   *)
(* signing two contradicting headers (the statement of C15 across a node   *)
(* change instead of a restart: "the largest height it ever generated is   *)
(* ... what maxHeightGenerated reports next time").                        *)
(*                                                                         *)
(*   chain      the network's (linear) chain: chain[h] = [own, mhp] where  *)
(*              own says the block is by the validator under study and     *)
(*              mhp is the maxHeightPrevoted of the state AFTER the block  *)
(*   have[n]    height of node n's tip (a prefix of chain)                 *)
(*   keys[n]    "none" / "plain" / "enc": keys of the validator stored at n*)
(*   ginfo[n]   the stored GeneratorInfo of the validator at n, or NoInfo  *)
(*   present[n] whether an info record exists at n                         *)
(*   enabled[n] generation enabled at n (in memory; lost at restart,       *)
(*              re-enabled from plain keys at start: loadGenerator)        *)
(*   note       what the operator read with the last getStatus             *)
(*   signed     every header the validator ever signed                     *)
(*   followed   history: the operator has followed the protocol so far:    *)
(*              generation was only ever (re)enabled on a node whose       *)
(*              stored info is the info of the LATEST signed header and    *)
(*              while no other node was enabled                            *)
(* One action per endpoint call / generator step.  The values of           *)
(* maxHeightPrevoted come from the real BFT module when a recorded run is  *)
(* checked (trace/HandoverTrace.tla binds them from the log); here they    *)
(* are any monotone choice.                                                *)
(***************************************************************************)
EXTENDS Integers, Sequences, FiniteSets, TLC, Json

CONSTANTS Nodes, MaxH, MaxSteps, MaxRestart,
          OperatorFollows,   \* TRUE: only behaviours in which the operator follows the protocol are generated
          InitKeys,          \* keys stored on every node at the start ("none": setKeys is part of the behaviours)
          Focus,             \* TRUE: only the steps of a hand-over (no key changes, probes, headers as info); dumps only behaviours that generated on two nodes
          DumpEvery

VARIABLES chain, have, keys, ginfo, present, enabled, note, signed, followed, forgedAt, script
vars == <<chain, have, keys, ginfo, present, enabled, note, signed, followed, forgedAt, script>>

NoInfo == [h |-> 0, mhp |-> 0, mhg |-> 0]
Max2(a, b) == IF a >= b THEN a ELSE b
MhpAt(h) == IF h = 0 THEN 0 ELSE chain[h].mhp
\* the header of node n's tip: its maxHeightPrevoted is the chain's value BEFORE the block (what its generator saw)
TipOf(n) == [h |-> have[n], mhp |-> IF have[n] = 0 THEN 0 ELSE MhpAt(have[n] - 1)]

\* the info of the latest header the validator signed anywhere (NoInfo before the first)
Latest == IF signed = {} THEN NoInfo
          ELSE CHOOSE s \in signed : \A t \in signed : t.h <= s.h

\* liskbft API HeaderHasPriority for a version-2 tip: the node's tip HEADER is strictly better than the reported last block
\* (a node whose tip is the very block the validator generated last is not "synced" yet: one more block is needed)
\* (the genesis block has version 0: nothing may have been generated above it)
Synced(tip, i) == IF tip.h = 0 THEN i.h <= 0 /\ i.mhp <= 0
                  ELSE i.mhp < tip.mhp \/ (i.mhp = tip.mhp /\ i.h < tip.h)

\* LIP-0014 contradiction of two headers of one generator
Contra(a, b) ==
  LET e == IF a.mhg < b.mhg \/ (a.mhg = b.mhg /\ a.mhp < b.mhp) \/ (a.mhg = b.mhg /\ a.mhp = b.mhp /\ a.h <= b.h) THEN a ELSE b
      l == IF e = a THEN b ELSE a
  IN a # b /\ ((e.mhp = l.mhp /\ e.h >= l.h) \/ e.h > l.mhg \/ e.mhp > l.mhp)

\* updateStatus(enable = TRUE): the answer of the endpoint
EnableResult(n, i) ==
  IF keys[n] = "none" THEN "not-stored"
  ELSE IF ~Synced(TipOf(n), i) THEN "not-synced"
  ELSE IF present[n] /\ ginfo[n] # i THEN "contradicting"
  ELSE IF ~present[n] /\ i # NoInfo THEN "no-previous"
  ELSE "ok"

\* what an operator can know: nothing, what the last getStatus said, any header the validator signed (they are public)
Infos == {NoInfo, note} \cup signed
Src(i) == IF i = NoInfo THEN "zero" ELSE IF i = note THEN "note" ELSE "signed"
Others(n) == Nodes \ {n}
Steps == Len(script)

Init ==
  /\ chain = <<>> /\ have = [n \in Nodes |-> 0]
  /\ keys = [n \in Nodes |-> InitKeys] /\ ginfo = [n \in Nodes |-> NoInfo] /\ present = [n \in Nodes |-> FALSE]
  /\ enabled = [n \in Nodes |-> FALSE] /\ note = NoInfo /\ signed = {} /\ followed = TRUE /\ forgedAt = {} /\ script = <<>>

SetKeys(n, t) ==
  /\ Steps < MaxSteps /\ keys[n] # t
  /\ keys' = [keys EXCEPT ![n] = t]
  /\ script' = Append(script, [op |-> "setkeys", n |-> n, type |-> t])
  /\ UNCHANGED <<chain, have, ginfo, present, enabled, note, signed, followed, forgedAt>>

\* a block of another validator, built by a node that is at the network's tip
Other(n) ==
  /\ Steps < MaxSteps /\ have[n] = Len(chain) /\ Len(chain) < MaxH
  /\ \E m \in MhpAt(Len(chain))..Len(chain) :
       chain' = Append(chain, [own |-> FALSE, mhp |-> m])
  /\ have' = [have EXCEPT ![n] = @ + 1]
  /\ script' = Append(script, [op |-> "other", n |-> n])
  /\ UNCHANGED <<keys, ginfo, present, enabled, note, signed, followed, forgedAt>>

Catch(n) ==
  /\ Steps < MaxSteps /\ have[n] < Len(chain)
  /\ have' = [have EXCEPT ![n] = @ + 1]
  /\ script' = Append(script, [op |-> "catch", n |-> n])
  /\ UNCHANGED <<chain, keys, ginfo, present, enabled, note, signed, followed, forgedAt>>

\* the generator's forge step: header from the tip and the stored info; the info is persisted before the hand-over
Forge(n) ==
  /\ Steps < MaxSteps /\ enabled[n] /\ have[n] = Len(chain) /\ Len(chain) < MaxH
  /\ LET hdr == [h |-> Len(chain) + 1, mhp |-> MhpAt(Len(chain)), mhg |-> Max2(ginfo[n].h, ginfo[n].mhg)]
     IN /\ ginfo' = [ginfo EXCEPT ![n] = hdr] /\ present' = [present EXCEPT ![n] = TRUE]
        /\ signed' = signed \cup {hdr}
        /\ \E m \in MhpAt(Len(chain))..Len(chain) : chain' = Append(chain, [own |-> TRUE, mhp |-> m])
        /\ have' = [have EXCEPT ![n] = @ + 1]
        /\ script' = Append(script, [op |-> "forge", n |-> n, hdr |-> hdr])
  /\ forgedAt' = forgedAt \cup {n}
  /\ UNCHANGED <<keys, enabled, note, followed>>

GetStatus(n) ==
  /\ Steps < MaxSteps
  /\ note' = IF present[n] THEN ginfo[n] ELSE NoInfo
  /\ script' = Append(script, [op |-> "getstatus", n |-> n, present |-> present[n], info |-> ginfo[n], enabled |-> enabled[n]])
  /\ UNCHANGED <<chain, have, keys, ginfo, present, enabled, signed, followed, forgedAt>>

SetStatus(n, i) ==
  /\ Steps < MaxSteps
  /\ ginfo' = [ginfo EXCEPT ![n] = i] /\ present' = [present EXCEPT ![n] = TRUE]
  \* rewriting the info of a node that generates is only harmless with the latest info
  /\ followed' = (followed /\ (enabled[n] => i = Latest))
  /\ script' = Append(script, [op |-> "setstatus", n |-> n, info |-> i, src |-> Src(i)])
  /\ UNCHANGED <<chain, have, keys, enabled, note, signed, forgedAt>>

Enable(n, i) ==
  /\ Steps < MaxSteps
  /\ LET r == EnableResult(n, i) IN
       /\ IF r = "ok"
          THEN /\ ginfo' = [ginfo EXCEPT ![n] = i] /\ present' = [present EXCEPT ![n] = TRUE]
               /\ enabled' = [enabled EXCEPT ![n] = TRUE]
               /\ followed' = (followed /\ i = Latest /\ \A m \in Others(n) : ~enabled[m])
          ELSE UNCHANGED <<ginfo, present, enabled, followed>>
       /\ script' = Append(script, [op |-> "enable", n |-> n, info |-> i, src |-> Src(i), res |-> r])
  /\ UNCHANGED <<chain, have, keys, note, signed, forgedAt>>

\* updateStatus with a wrong password for encrypted keys: refused before anything else is looked at
EnableBadPw(n) ==
  /\ Steps < MaxSteps /\ keys[n] = "enc"
  /\ script' = Append(script, [op |-> "enable-badpw", n |-> n, res |-> "bad-password"])
  /\ UNCHANGED <<chain, have, keys, ginfo, present, enabled, note, signed, followed, forgedAt>>

\* the validator's slot passes on a node where generation is not enabled: no block
Idle(n) ==
  /\ Steps < MaxSteps /\ ~enabled[n] /\ have[n] = Len(chain)
  /\ script' = Append(script, [op |-> "idle", n |-> n])
  /\ UNCHANGED <<chain, have, keys, ginfo, present, enabled, note, signed, followed, forgedAt>>

Disable(n) ==
  /\ Steps < MaxSteps /\ keys[n] # "none"
  /\ enabled' = [enabled EXCEPT ![n] = FALSE]
  /\ script' = Append(script, [op |-> "disable", n |-> n])
  /\ UNCHANGED <<chain, have, keys, ginfo, present, note, signed, followed, forgedAt>>

NRestart == Cardinality({k \in 1..Len(script) : script[k].op = "restart"})
\* the node is stopped and started: plain keys are enabled again without any question (loadGenerator)
Restart(n) ==
  /\ Steps < MaxSteps /\ NRestart < MaxRestart
  /\ LET auto == keys[n] = "plain" IN
       /\ enabled' = [enabled EXCEPT ![n] = auto]
       /\ followed' = (followed /\ (auto => (IF present[n] THEN ginfo[n] ELSE NoInfo) = Latest /\ \A m \in Others(n) : ~enabled[m]))
       /\ script' = Append(script, [op |-> "restart", n |-> n, auto |-> auto])
  /\ UNCHANGED <<chain, have, keys, ginfo, present, note, signed, forgedAt>>

Step ==
  \E n \in Nodes :
    \/ ~Focus /\ \E t \in {"plain", "enc"} : SetKeys(n, t)
    \/ ~Focus /\ (Idle(n) \/ EnableBadPw(n))
    \/ Other(n) \/ Catch(n) \/ Forge(n) \/ GetStatus(n) \/ Disable(n) \/ Restart(n)
    \/ \E i \in (IF Focus THEN {NoInfo, note} ELSE Infos) : SetStatus(n, i) \/ Enable(n, i)

\* with OperatorFollows only steps that keep the history flag are taken
Next == Step /\ (OperatorFollows => followed')
Spec == Init /\ [][Next]_vars

(* ------------------------------ properties ------------------------------ *)
\* the purpose of the whole interface
NoContradiction == followed => \A a, b \in signed : ~Contra(a, b)
\* non-vacuity control: without the protocol a contradiction is reachable (expected to be violated)
NoContradictionAtAll == \A a, b \in signed : ~Contra(a, b)
\* what is stored covers what was signed, on the node that generates
InfoCoversSigned == followed => \A n \in Nodes : enabled[n] => (IF present[n] THEN ginfo[n] ELSE NoInfo) = Latest
AtMostOneEnabled == followed => \A n, m \in Nodes : enabled[n] /\ enabled[m] => n = m
\* reachability control (expected to be violated): the validator has generated on two nodes
HandoverReached == Cardinality(forgedAt) < 2

HView == <<chain, have, keys, ginfo, present, enabled, note, signed, followed, forgedAt, Len(script), NRestart>>
DumpInv ==
  (DumpEvery > 0 /\ (Len(script) = MaxSteps \/ ~ENABLED Next) /\ (Focus => Cardinality(forgedAt) = 2) /\ RandomElement(1..DumpEvery) = 1)
    => PrintT(<<"DUMP", ToJson([script |-> script, followed |-> followed])>>)
=============================================================================
