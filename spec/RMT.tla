-------------------------------- MODULE RMT --------------------------------
(***************************************************************************)
(* Regular Merkle tree (LIP-0031, pkg/trie/rmt) - property C11.            *)
(* Hashes are terms:  E | L(i) | B(l, r)  (i = position of the leaf datum, *)
(* 1-based); the harness folds them with real SHA-256.                      *)
(*   RootOf      declarative LIP-0031 root (split at the largest power of  *)
(*               two strictly below the number of leaves)                  *)
(*   PathDecl    declarative append path: roots of the complete subtrees   *)
(*               of the binary decomposition of n, smallest first          *)
(* The state machine appends one leaf at a time with the incremental rule  *)
(* of RegularMerkleTree.Append; the invariants say incremental = batch.    *)
(* Mode "subsets" has one state per (n, S): the inputs of the proof/update *)
(* checks (all non-empty leaf subsets of all lists up to MaxSub leaves,    *)
(* and the deterministic subset SHAPES of the longer lists).               *)
(* Mode "hist" is the tree as an object with a history: Append, Update of  *)
(* a leaf set, Reload from storage, over lists of VALUES (repeated, empty, *)
(* 32-byte and long values included); leaves are V(v) there and the        *)
(* harness maps the value ids to byte strings.                             *)
(***************************************************************************)
EXTENDS Integers, Sequences, FiniteSets, SequencesExt, TLC, Json

CONSTANTS BigN,     \* sizes mode: the walk continues up to BigN (0: stop at MaxN); beyond MaxN only sizes next to a power of
                    \* two (where the append path collapses) and a sparse sample are printed for the replay
          MaxN,     \* sizes 0..MaxN
          MaxSub,   \* subsets mode: list lengths 1..MaxSub
          Mode,     \* "sizes" | "subsets" | "both" (sizes and subsets in one run) | "hist"
          ShapeMax, \* subsets mode: subset shapes for every list length MaxSub+1..ShapeMax ...
          ShapeBig, \* ... and for 2^k-1, 2^k, 2^k+1 (2^k >= 64) up to ShapeBig
          HStart,   \* hist mode: set of initial list lengths
          HMaxN,    \* hist mode: lists do not grow beyond HMaxN leaves
          HDepth,   \* hist mode: operations per history
          RefreshPath  \* hist mode, implementation shape: Update recomputes the append path of the modified list (TRUE); FALSE
                       \* is the control (Update keeps the old path): HPathIsDecl / HRootIsBatch must be violated

VARIABLES n, path, root, sub,
          list,     \* hist mode: the list of leaf values (value ids) the tree stands for
          hist      \* hist mode: the operations so far, each with the list after it
vars == <<n, path, root, sub, list, hist>>

E == [t |-> "E"]
L(i) == [t |-> "L", i |-> i]
V(v) == [t |-> "V", v |-> v]
B(l, r) == [t |-> "B", l |-> l, r |-> r]

RECURSIVE LP2Below(_, _)
LP2Below(k, m) == IF 2 * k < m THEN LP2Below(2 * k, m) ELSE k      \* largest power of two < m (m >= 2), start k = 1
RECURSIVE LP2AtMost(_, _)
LP2AtMost(k, m) == IF 2 * k <= m THEN LP2AtMost(2 * k, m) ELSE k   \* largest power of two <= m (m >= 1)

RECURSIVE RootOf(_, _)
RootOf(lo, hi) ==
  IF hi < lo THEN E
  ELSE IF lo = hi THEN L(lo)
  ELSE LET k == LP2Below(1, hi - lo + 1) IN B(RootOf(lo, lo + k - 1), RootOf(lo + k, hi))

RECURSIVE PathHigh(_, _)
PathHigh(m, lo) == IF m = 0 THEN <<>> ELSE LET k == LP2AtMost(1, m) IN <<RootOf(lo, lo + k - 1)>> \o PathHigh(m - k, lo + k)
PathDecl(m) == Reverse(PathHigh(m, 1))

RECURSIVE FoldFrom(_, _, _)
FoldFrom(p, i, cur) == IF i > Len(p) THEN cur ELSE FoldFrom(p, i + 1, B(p[i], cur))
FoldPath(p) == IF Len(p) = 0 THEN E ELSE FoldFrom(p, 2, p[1])

RECURSIVE TrailingOnes(_)
TrailingOnes(m) == IF m % 2 = 1 THEN 1 + TrailingOnes(m \div 2) ELSE 0

\* RegularMerkleTree.Append (incremental rule); lf is the term of the new leaf
AppendRootT(p, lf) == FoldFrom(p, 1, lf)
AppendPathIncT(p, m, lf) ==
  LET t == TrailingOnes(m) IN
  <<FoldFrom(SubSeq(p, 1, t), 1, lf)>> \o SubSeq(p, t + 1, Len(p))
AppendRoot(p, m) == AppendRootT(p, L(m + 1))
AppendPathInc(p, m) == AppendPathIncT(p, m, L(m + 1))

\* the same declarative root / append path over a list of values
RECURSIVE RootOfL(_, _, _)
RootOfL(s, lo, hi) ==
  IF hi < lo THEN E
  ELSE IF lo = hi THEN V(s[lo])
  ELSE LET k == LP2Below(1, hi - lo + 1) IN B(RootOfL(s, lo, lo + k - 1), RootOfL(s, lo + k, hi))
RECURSIVE PathHighL(_, _, _)
PathHighL(s, m, lo) == IF m = 0 THEN <<>> ELSE LET k == LP2AtMost(1, m) IN <<RootOfL(s, lo, lo + k - 1)>> \o PathHighL(s, m - k, lo + k)
PathDeclL(s) == Reverse(PathHighL(s, Len(s), 1))

-----------------------------------------------------------------------------
(* subset shapes (mode "subsets", lists longer than MaxSub): the leaf sets a random sample of <= 4 leaves never hits *)
Pow2s(m) == {k \in 1..m : \E j \in 0..12 : k = 2 ^ j}
Shapes(m) ==
  LET P == Pow2s(m) \ {1, 2}
      P1 == {k \in P : k + 1 <= m}
      half == LP2Below(1, m) IN
     {1..m}                                                              \* every leaf: a proof without sibling hashes
  \cup {1..k : k \in P} \cup {1..(k + 1) : k \in P1}                     \* prefixes of 2^j and 2^j+1 leaves (j >= 2: the
  \cup {(m - k + 1)..m : k \in P} \cup {(m - k)..m : k \in P1}           \* suffixes    shorter ones are sampled anyway)
  \cup {(1..m) \ {x} : x \in {1, 2, (m + 1) \div 2, m - 1, m}}           \* all but one leaf
  \cup {(1..half) \cup {m}, (half + 1)..m}                               \* left subtree + last leaf; the right subtree
  \cup {{i \in 1..m : i % 2 = 1}, {i \in 1..m : i % 2 = 0}}              \* no two siblings: the longest working lists
  \cup {{i \in 1..m : i % 4 \in {1, 2}}}                                 \* every second pair of siblings
ShapeNs == {m \in (MaxSub + 1)..ShapeBig : m <= ShapeMax \/ \E k \in {64, 128, 256, 512, 1024} : m \in (k - 1)..(k + 1)}

-----------------------------------------------------------------------------
(* mode "hist" *)
Special == {0, 1, 2}                 \* value ids the harness maps to the empty value, a 32-byte value and a long value
NextFresh == 100 * (Len(hist) + 1)   \* ids of fresh values: pairwise distinct, different from the initial 11..(10+HMaxN)
HLast == hist[Len(hist)]
Dom == hist[1].dom                   \* "distinct": all values pairwise distinct; "mixed": repeated and special values too

UpdSets(m) ==
     {{a} : a \in 1..m}
  \cup {{a, a + 1} : a \in 1..(m - 1)}
  \cup {{a, m} : a \in 1..m} \cup {{1, a} : a \in 1..m}
  \cup {1..k : k \in Pow2s(m)} \cup {(m - k + 1)..m : k \in Pow2s(m)}
  \cup {1..m, {i \in 1..m : i % 2 = 1}}

HApp(v) ==
  /\ Len(list) < HMaxN
  /\ list' = Append(list, v)
  /\ root' = AppendRootT(path, V(v))
  /\ path' = AppendPathIncT(path, Len(list), V(v))
  /\ hist' = Append(hist, [op |-> "A", v |-> v, list |-> list'])

\* kind: "fresh" new distinct values, "same" one new value for every updated leaf, "empty" the empty value, "noop" the old values
HUpd(S, kind) ==
  LET s == SetToSortSeq(S, <)
      nv(k) == CASE kind = "fresh" -> NextFresh + k
                 [] kind = "same"  -> NextFresh
                 [] kind = "empty" -> 0
                 [] OTHER          -> list[s[k]]
      vals == [k \in 1..Len(s) |-> nv(k)] IN
  /\ list' = [i \in 1..Len(list) |-> IF i \in S THEN nv(CHOOSE k \in 1..Len(s) : s[k] = i) ELSE list[i]]
  /\ root' = RootOfL(list', 1, Len(list'))
  /\ path' = IF RefreshPath THEN PathDeclL(list') ELSE path
  /\ hist' = Append(hist, [op |-> "U", s |-> s, vals |-> vals, kind |-> kind, list |-> list'])

HReload ==
  /\ HLast.op # "R"
  /\ hist' = Append(hist, [op |-> "R", list |-> list])
  /\ UNCHANGED <<list, root, path>>

\* simulation only (RandomElement): TLC evaluates every successor of a state, so the argument of an operation is drawn at random
\* instead of being enumerated - a step has two appends, three updates and one reload to choose from
AppVals == {NextFresh} \cup (IF Dom = "mixed" THEN Special \cup {list[i] : i \in {1, Len(list)} \cap DOMAIN list} ELSE {})
UpdKinds == IF Dom = "mixed" THEN {"fresh", "same", "empty", "noop"} ELSE {"fresh"}
HNext ==
  /\ Mode = "hist" /\ Len(hist) <= HDepth
  /\ \/ \E v \in {NextFresh, RandomElement(AppVals)} : HApp(v)
     \/ /\ Len(list) > 0
        /\ \E j \in 1..3 : \E S \in {RandomElement(UpdSets(Len(list)))} : \E kind \in {RandomElement(UpdKinds)} : HUpd(S, kind)
     \/ HReload
  /\ n' = Len(list') /\ UNCHANGED sub

Init == /\ IF Mode = "hist"
           THEN \E m \in HStart : \E dom \in {"distinct", "mixed"} :
                   /\ list = [i \in 1..m |-> IF dom = "mixed" /\ i = m /\ m >= 3 THEN 11 ELSE 10 + i]   \* mixed: the last value = the first
                   /\ hist = <<[op |-> "I", dom |-> dom, list |-> list]>>
                   /\ n = m /\ path = PathDeclL(list) /\ root = RootOfL(list, 1, m)
           ELSE n = 0 /\ path = <<>> /\ root = E /\ list = <<>> /\ hist = <<>>
        /\ sub \in (IF Mode \in {"subsets", "both"}
                    THEN {<<m, S>> : m \in 1..MaxSub, S \in SUBSET (1..MaxSub)} \cup {<<m, S>> : m \in ShapeNs, S \in SUBSET {}}
                    ELSE {}) \cup (IF Mode = "subsets" THEN {} ELSE {<<0, {}>>})
        /\ (sub[1] > 0 => ((sub[1] \in ShapeNs \/ sub[2] # {}) /\ sub[2] \subseteq 1..sub[1]))

Top == IF BigN > MaxN THEN BigN ELSE MaxN
RECURSIVE NearP2(_, _)
NearP2(m, k) == IF k > 2 * m + 8 THEN FALSE ELSE (m >= k - 3 /\ m <= k + 2) \/ NearP2(m, 2 * k)
Printed(m) == m <= MaxN \/ NearP2(m, 64) \/ m % 97 \in {0, 1}
AppendLeaf == /\ Mode \in {"sizes", "both"} /\ sub[1] = 0 /\ n < Top
          /\ n' = n + 1 /\ root' = AppendRoot(path, n) /\ path' = AppendPathInc(path, n) /\ UNCHANGED <<sub, list, hist>>
Next == AppendLeaf \/ HNext
Spec == Init /\ [][Next]_vars

IncrementalIsBatch == root = RootOf(1, n)
PathIsDecl == path = PathDecl(n)
PathReconstructsRoot == FoldPath(path) = root
PathLength == Len(path) = Cardinality({b \in 0..14 : (n \div (2 ^ b)) % 2 = 1})

\* hist mode: the tree object stands for `list` after every operation
HRootIsBatch == root = RootOfL(list, 1, Len(list))
HPathIsDecl == path = PathDeclL(list)

(* leaf-value families of the sizes mode: positions that share one value, positions with the empty value, the kind of the   *)
(* other values ("short" 6-17 bytes, "h32" 32 bytes like a transaction id, "long" like an encoded asset)                    *)
Fams(m) ==
  IF m = 0 \/ (m > MaxN /\ ~\E k \in {64, 128, 256, 512, 1024, 2048, 4096} : m \in (k - 1)..(k + 1)) THEN <<>>
  ELSE << [name |-> "repeated", kind |-> "short", same |-> SetToSortSeq({1, (m + 1) \div 2, m}, <), empty |-> <<>>],
          [name |-> "empty+h32", kind |-> "h32", same |-> <<>>, empty |-> SetToSortSeq({(m + 2) \div 3} \cup (IF m > 8 THEN {m - 1, m} ELSE {}), <)],
          [name |-> "all-equal-long", kind |-> "long", same |-> [i \in 1..m |-> i], empty |-> <<>>] >>

(* tamperings of an honest right witness (i, appendPath, witness, root) and of an honest inclusion proof.  A verdict exists    *)
(* where the statement + injectivity of the hash decide it: the honest inputs reconstruct the root term of the list and every  *)
(* one of them is needed for it, so a forged or dropped hash gives another term and a root other than the list's is not what   *)
(* they reconstruct: the verifier must answer FALSE.  No verdict (the call must only return): one more hash than needed (a    *)
(* verifier may ignore it), another position with the same hashes (may reconstruct the same term).                            *)
Tampers == [witness |-> <<"forge-witness", "forge-path", "drop-witness", "extend-witness", "other-root", "nil-root", "empty-root", "short-root", "position">>,
            proof   |-> <<"forge-query", "forge-sibling", "drop-sibling", "extend-sibling", "other-root", "nil-root", "empty-root", "short-root">>,
            noverdict |-> <<"position", "extend-witness", "extend-sibling">>]

Row == CASE Mode = "sizes" \/ (Mode = "both" /\ sub[1] = 0) ->
              ~Printed(n) \/ PrintT(<<"DUMP", ToJson(IF n = 0 THEN [n |-> n, root |-> root, path |-> path, fams |-> Fams(n), tampers |-> Tampers]
                                                      ELSE [n |-> n, root |-> root, path |-> path, fams |-> Fams(n)])>>)
         [] Mode \in {"subsets", "both"} ->
              IF sub[1] \in ShapeNs
              THEN PrintT(<<"DUMP", ToJson([n |-> sub[1], shapes |-> {SetToSortSeq(S, <) : S \in Shapes(sub[1])}])>>)
              ELSE PrintT(<<"DUMP", ToJson([n |-> sub[1], s |-> SetToSortSeq(sub[2], <), root |-> RootOf(1, sub[1])])>>)
         [] OTHER ->
              Len(hist) <= HDepth \/ PrintT(<<"DUMP", ToJson([hist |-> hist])>>)
=============================================================================
