-------------------------------- MODULE RMT --------------------------------
(***************************************************************************)
(* Regular Merkle tree (LIP-0031, pkg/trie/rmt) - property C11.            *)
(* Hashes are terms:  E | L(i) | B(l, r)  (i = position of the leaf datum, *)
(* 1-based); the harness folds them with real SHA-256.                      *)
(*   RootOf      declarative LIP-0031 root (split at the largest power of  *)
(*               two strictly below the number of leaves)                  *)
(*   PathDecl    declarative append path: roots of the complete subtrees   *)
(*               of the binary decomposition of n, smallest first          *)
(* The state machine appends one leaf at a time with the incremental rule  *)
(* of RegularMerkleTree.Append; the invariants say incremental = batch.    *)
(* Mode "subsets" has one state per (n, S): the inputs of the proof/update *)
(* checks (all non-empty leaf subsets of all lists up to MaxSub leaves).   *)
(***************************************************************************)
EXTENDS Integers, Sequences, FiniteSets, SequencesExt, TLC, Json

CONSTANTS BigN,     \* sizes mode: the walk continues up to BigN (0: stop at MaxN); beyond MaxN only sizes next to a power of
                    \* two (where the append path collapses) and a sparse sample are printed for the replay
          MaxN,     \* sizes 0..MaxN
          MaxSub,   \* subsets mode: list lengths 1..MaxSub
          Mode      \* "sizes" | "subsets"

VARIABLES n, path, root, sub
vars == <<n, path, root, sub>>

E == [t |-> "E"]
L(i) == [t |-> "L", i |-> i]
B(l, r) == [t |-> "B", l |-> l, r |-> r]

RECURSIVE LP2Below(_, _)
LP2Below(k, m) == IF 2 * k < m THEN LP2Below(2 * k, m) ELSE k      \* largest power of two < m (m >= 2), start k = 1
RECURSIVE LP2AtMost(_, _)
LP2AtMost(k, m) == IF 2 * k <= m THEN LP2AtMost(2 * k, m) ELSE k   \* largest power of two <= m (m >= 1)

RECURSIVE RootOf(_, _)
RootOf(lo, hi) ==
  IF hi < lo THEN E
  ELSE IF lo = hi THEN L(lo)
  ELSE LET k == LP2Below(1, hi - lo + 1) IN B(RootOf(lo, lo + k - 1), RootOf(lo + k, hi))

RECURSIVE PathHigh(_, _)
PathHigh(m, lo) == IF m = 0 THEN <<>> ELSE LET k == LP2AtMost(1, m) IN <<RootOf(lo, lo + k - 1)>> \o PathHigh(m - k, lo + k)
PathDecl(m) == Reverse(PathHigh(m, 1))

RECURSIVE FoldFrom(_, _, _)
FoldFrom(p, i, cur) == IF i > Len(p) THEN cur ELSE FoldFrom(p, i + 1, B(p[i], cur))
FoldPath(p) == IF Len(p) = 0 THEN E ELSE FoldFrom(p, 2, p[1])

RECURSIVE TrailingOnes(_)
TrailingOnes(m) == IF m % 2 = 1 THEN 1 + TrailingOnes(m \div 2) ELSE 0

\* RegularMerkleTree.Append (incremental rule)
AppendRoot(p, m) == FoldFrom(p, 1, L(m + 1))
AppendPathInc(p, m) ==
  LET t == TrailingOnes(m) IN
  <<FoldFrom(SubSeq(p, 1, t), 1, L(m + 1))>> \o SubSeq(p, t + 1, Len(p))

Init == /\ n = 0 /\ path = <<>> /\ root = E
        /\ sub \in (IF Mode = "subsets" THEN {<<m, S>> : m \in 1..MaxSub, S \in SUBSET (1..MaxSub)} ELSE {<<0, {}>>})
        /\ (Mode = "subsets" => (sub[2] # {} /\ sub[2] \subseteq 1..sub[1]))

Top == IF BigN > MaxN THEN BigN ELSE MaxN
RECURSIVE NearP2(_, _)
NearP2(m, k) == IF k > 2 * m + 8 THEN FALSE ELSE (m >= k - 3 /\ m <= k + 2) \/ NearP2(m, 2 * k)
Printed(m) == m <= MaxN \/ NearP2(m, 64) \/ m % 97 \in {0, 1}
AppendLeaf == /\ Mode = "sizes" /\ n < Top
          /\ n' = n + 1 /\ root' = AppendRoot(path, n) /\ path' = AppendPathInc(path, n) /\ UNCHANGED sub
Next == AppendLeaf
Spec == Init /\ [][Next]_vars

IncrementalIsBatch == root = RootOf(1, n)
PathIsDecl == path = PathDecl(n)
PathReconstructsRoot == FoldPath(path) = root
PathLength == Len(path) = Cardinality({b \in 0..14 : (n \div (2 ^ b)) % 2 = 1})

Row == IF Mode = "sizes"
       THEN ~Printed(n) \/ PrintT(<<"DUMP", ToJson([n |-> n, root |-> root, path |-> path])>>)
       ELSE PrintT(<<"DUMP", ToJson([n |-> sub[1], s |-> SetToSortSeq(sub[2], <), root |-> RootOf(1, sub[1])])>>)
=============================================================================
