------------------------------- MODULE MCNet -------------------------------
EXTENDS Net
W111 == <<1, 1, 1>>
W1111 == <<1, 1, 1, 1>>
NoChoices == <<>>
\* validator 3 leaves (no weight, no slot) / re-weighting with a re-ordered generator list
Choices3 == << [pcT |-> 2, certT |-> 2, w |-> <<1, 1, 0>>, gens |-> <<2, 1>>],
               [pcT |-> 3, certT |-> 3, w |-> <<2, 1, 1>>, gens |-> <<3, 1, 2>>] >>
\* four validators, validator 4 Byzantine: re-weighting with a re-ordered generator list (Byzantine weight 1/5) / the Byzantine
\* validator leaves (it comes back when the other choice follows): its weight stays below one third throughout
Choices4 == << [pcT |-> 3, certT |-> 3, w |-> <<2, 1, 1, 1>>, gens |-> <<2, 4, 1, 3>>],
               [pcT |-> 2, certT |-> 2, w |-> <<1, 1, 1, 0>>, gens |-> <<3, 1, 2>>] >>
\* the script is a history variable: two behaviours reaching the same network state are one state
NetView == <<blocks, tip, fin, recv, banned, maxGen, lastSlot, Len(script)>>
=============================================================================
