------------------------------- MODULE MCNet -------------------------------
EXTENDS Net
W111 == <<1, 1, 1>>
W1111 == <<1, 1, 1, 1>>
\* the script is a history variable: two behaviours reaching the same network state are one state
NetView == <<blocks, tip, fin, recv, banned, maxGen, lastSlot, Len(script)>>
=============================================================================
