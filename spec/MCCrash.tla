------------------------------ MODULE MCCrash ------------------------------
EXTENDS Crash
Both == {"powerloss", "processdeath"}
NoNeeds == [e \in {} |-> {}]
\* pruning of the revert diffs / events of finalized heights: not an effect the statement names; the pruned data is dead only
\* once the finalized height that makes it dead is durable
PruneNeeds == [e \in {"prune"} |-> {"finalized"}]
AllEffects == {"block", "indexes", "consensus", "diff", "finalized"}
WithPrune == AllEffects \cup {"prune"}
\* removal of the tip (with its temporary copy), and the two stages of a tie break
DelEffects == {"del-block", "del-indexes", "del-consensus", "del-diff"}
DelTemp == DelEffects \cup {"temp"}
Shape(n, st, lay, sy, nd, sf) == [name |-> n, stages |-> st, layout |-> lay, synced |-> sy, needs |-> nd, safe |-> sf]

AllShapes == {
  \* the intended shapes: one batch per stage
  Shape("onebatch", <<AllEffects>>, <<AllEffects>>, <<TRUE>>, NoNeeds, Both),
  Shape("onebatch-prune", <<WithPrune>>, <<WithPrune>>, <<TRUE>>, PruneNeeds, Both),
  Shape("remove-onebatch", <<DelTemp>>, <<DelTemp>>, <<TRUE>>, NoNeeds, Both),
  Shape("tiebreak", <<DelEffects, AllEffects>>, <<DelEffects, AllEffects>>, <<TRUE, TRUE>>, NoNeeds, Both),
  \* admissible although it is not one write: dead data pruned afterwards
  Shape("prune-after", <<WithPrune>>, <<AllEffects, {"prune"}>>, <<TRUE, TRUE>>, PruneNeeds, Both),
  \* unsafe shapes (non-vacuity controls)
  Shape("diff-separate", <<AllEffects>>, <<{"diff"}, AllEffects \ {"diff"}>>, <<TRUE, TRUE>>, NoNeeds, {}),
  Shape("finalized-separate", <<AllEffects>>, <<AllEffects \ {"finalized"}, {"finalized"}>>, <<TRUE, TRUE>>, NoNeeds, {}),
  Shape("genesis-two-writes", <<AllEffects>>, <<{"block", "indexes", "finalized"}, {"consensus", "diff"}>>, <<TRUE, TRUE>>, NoNeeds, {}),
  Shape("prune-before", <<WithPrune>>, <<{"prune"}, AllEffects>>, <<TRUE, TRUE>>, PruneNeeds, {}),
  Shape("temp-copy-first", <<DelTemp>>, <<{"temp"}, DelEffects>>, <<TRUE, TRUE>>, NoNeeds, {}),
  Shape("tiebreak-shortcut", <<DelEffects, AllEffects>>, <<{"del-indexes"}, DelEffects \ {"del-indexes"}, AllEffects>>, <<TRUE, TRUE, TRUE>>, NoNeeds, {}),
  \* atomic when unsynced bytes are lost, not atomic when the process dies: why the second crash model exists
  Shape("prune-before-unsynced", <<WithPrune>>, <<{"prune"}, AllEffects>>, <<FALSE, TRUE>>, PruneNeeds, {"powerloss"}),
  Shape("temp-copy-first-unsynced", <<DelTemp>>, <<{"temp"}, DelEffects>>, <<FALSE, TRUE>>, NoNeeds, {"powerloss"})
}
\* (always TRUE) one line per shape / crash model that is expected to expose a forbidden state
Expect == (pc = 0 /\ ~crashed /\ model \notin shape.safe) => PrintT(<<"EXPECT", shape.name, model>>)
=============================================================================
