------------------------------ MODULE MCCrash ------------------------------
EXTENDS Crash
AllEffects == {"block", "indexes", "consensus", "diff", "finalized"}
OneBatch == << AllEffects >>
\* unsafe shapes (non-vacuity controls): the revert diff or the finalized height written separately
DiffSeparate == << {"diff"}, AllEffects \ {"diff"} >>
FinalizedSeparate == << AllEffects \ {"finalized"}, {"finalized"} >>
=============================================================================
