-------------------------------- MODULE Node --------------------------------
(***************************************************************************)
(* Engine-level model of one node (pkg/consensus.Executer + pkg/blockchain)*)
(* used by C03 (only fully valid blocks extend the chain; rejected blocks  *)
(* change nothing), C04 (finality monotone / irreversible), C05 (delete    *)
(* restores the previous state) and C13 (crash atomicity).                 *)
(*                                                                         *)
(* State                                                                   *)
(*   chain   sequence of applied blocks above genesis (abstract headers)   *)
(*   vstack  vstack[i] = BFT votes (LiskBFT.tla) after block i-1; the last *)
(*           element belongs to the tip; what deleteBlock restores         *)
(*   fin     stored finalized height                                       *)
(*   temp    heights kept as temporary blocks                              *)
(*   evlog   events published so far ("new", "delete", "finalize", ...)    *)
(*   script  history of submitted steps with the expected observation -    *)
(*           printed as JSON and replayed on the real Executer             *)
(* Actions: one per entry point of the consensus goroutine:                *)
(*   SubmitValid   a fully valid successor is processed  (process())       *)
(*   SubmitMutant  a successor violating exactly one rule is processed     *)
(*   DeleteTip     deleteBlock(tip, saveTemp)                              *)
(*   Restart       the node is re-created on its database                  *)
(* Wall-clock: the current slot Now is a constant of a scenario (the       *)
(* harness places the genesis timestamp so that real time is mid-slot Now).*)
(***************************************************************************)
EXTENDS LiskBFT, Json, SequencesExt

CONSTANTS Win, InitW, InitPCT, InitCertT, Gens,    \* Gens: generator list (sequence of validators)
          ParamChoices,   \* sequence of [pcT, certT, w, gens] a block may switch to
          MaxChg, MaxLen, Now, MaxSteps, MaxDel, MaxTie, FinalityLag,
          Mutations,      \* set of mutation names enabled in this configuration
          DeepRevert,     \* TRUE: deletes / restarts / tie breaks only once something is final (simulation runs aimed at reverts down to the finalized height)
          DumpEvery

VARIABLES chain, vstack, fin, temp, evlog, script,
          recvKnown   \* the node knows when it received its tip (FALSE after a restart: the tip counts as synced)
vars == <<chain, vstack, fin, temp, evlog, script, recvKnown>>

Genesis0 == SetGenKeys(SetParams(GenesisVotes(0, Win), InitPCT, InitCertT, InitW), Gens)

Tip == IF Len(chain) = 0 THEN [h |-> 0, slot |-> 0, gen |-> 0, mhg |-> 0, mhp |-> 0] ELSE chain[Len(chain)]
V == vstack[Len(vstack)]
NChg == Cardinality({i \in 1..Len(chain) : chain[i].chg # 0})

GenAt(votes, h, slot) ==
  LET g == ParamsAt(votes.gkeys, h).gens IN g[(slot % Len(g)) + 1]

\* honest maxHeightGenerated: the largest height this validator generated on the current chain
LastForged(g) ==
  LET hs == {chain[i].h : i \in {j \in 1..Len(chain) : chain[j].gen = g}} IN
  IF hs = {} THEN 0 ELSE CHOOSE x \in hs : \A y \in hs : y <= x

SecondLastForged(g) ==
  LET hs == {chain[i].h : i \in {j \in 1..Len(chain) : chain[j].gen = g}} \ {LastForged(g)} IN
  IF hs = {} THEN 0 ELSE CHOOSE x \in hs : \A y \in hs : y <= x

Active(votes, h) == {v \in Validators : ParamsAt(votes.params, h).w[v] > 0}
RECURSIVE WeightOf(_, _)
WeightOf(S, w) == IF S = {} THEN 0 ELSE LET x == CHOOSE y \in S : TRUE IN w[x] + WeightOf(S \ {x}, w)

\* signer sets offered for a valid aggregate commit at height h: everybody, or a smallest-index prefix reaching the threshold
SignerSets(votes, h) ==
  LET p == ParamsAt(votes.params, h)
      act == Active(votes, h)
      prefixes == {{v \in act : v <= k} : k \in Validators}
  IN {act} \cup {S \in prefixes : WeightOf(S, p.w) >= p.certT /\ \A T \in prefixes : (WeightOf(T, p.w) >= p.certT) => Cardinality(S) <= Cardinality(T)}

\* verifyAggregateCommit
ACOk(votes, ac) ==
  IF ac.kind = "empty" THEN ac.h = votes.cert
  ELSE /\ ac.kind = "valid"
       /\ votes.cert < ac.h /\ ac.h <= votes.mhpc
       /\ LET nx == NextParamsHeight(votes.params, votes.cert + 1) IN nx = 0 \/ ac.h <= nx - 1
       /\ HasParamsAt(votes.params, ac.h)
       /\ LET p == ParamsAt(votes.params, ac.h) IN
            ac.signers \subseteq Active(votes, ac.h) /\ WeightOf(ac.signers, p.w) >= p.certT

Hdr(c) == [h |-> c.h, gen |-> c.gen, mhg |-> c.mhg, mhp |-> c.mhp, acH |-> c.ac.h, acNonEmpty |-> c.ac.kind # "empty"]

\* every validity rule of the statement, over the abstract candidate
Accept(c) ==
  /\ c.version = 2
  /\ c.h = Tip.h + 1 /\ c.prev = "tip"
  /\ c.slot > Tip.slot /\ c.slot <= Now
  /\ c.gen = GenAt(V, Tip.h + 1, c.slot)
  /\ c.signer = c.gen /\ c.sig = "ok"
  /\ c.mhp = V.mhpv
  /\ ~ContraChain(V, Hdr(c))
  /\ ACOk(V, c.ac)
  /\ c.txRoot = "ok" /\ c.assetRoot = "ok" /\ c.eventRoot = "ok" /\ c.stateRoot = "ok" /\ c.vhash = "ok"
  /\ c.txStatic = "ok" /\ c.payload = "ok"

\* the valid successors offered at the current state
ValidCands ==
  {[version |-> 2, h |-> Tip.h + 1, prev |-> "tip", slot |-> s, gen |-> GenAt(V, Tip.h + 1, s), signer |-> GenAt(V, Tip.h + 1, s),
    sig |-> "ok", mhp |-> V.mhpv, mhg |-> LastForged(GenAt(V, Tip.h + 1, s)), ac |-> ac,
    txRoot |-> "ok", assetRoot |-> "ok", eventRoot |-> "ok", stateRoot |-> "ok", vhash |-> "ok", txStatic |-> "ok", payload |-> "ok",
    chg |-> chg, ntx |-> ntx, mut |-> "none"] :
      s \in (Tip.slot + 1)..Min2(Now, Tip.slot + 2),
      ac \in {[h |-> V.cert, kind |-> "empty", signers |-> {}]} \cup
             {[h |-> pr[1], kind |-> "valid", signers |-> pr[2]] :
                 pr \in UNION {{<<x, S>> : S \in SignerSets(V, x)} :
                               x \in {y \in (V.cert + 1)..V.mhpc : LET nx == NextParamsHeight(V.params, V.cert + 1) IN nx = 0 \/ y <= nx - 1}}},
      chg \in {x \in 0..Len(ParamChoices) : x = 0 \/ NChg < MaxChg},
      ntx \in 0..1}

OtherGen(g) == CHOOSE v \in Validators : v # g
Mutate(c, m) ==
  CASE m = "version"          -> [c EXCEPT !.version = 1, !.mut = m]
    [] m = "height+1"         -> [c EXCEPT !.h = @ + 1, !.mut = m]
    [] m = "height-1"         -> [c EXCEPT !.h = @ - 1, !.mut = m]
    [] m = "prev"             -> [c EXCEPT !.prev = "other", !.mut = m]
    [] m = "slot-same"        -> [c EXCEPT !.slot = Tip.slot, !.gen = GenAt(V, Tip.h + 1, Tip.slot), !.signer = GenAt(V, Tip.h + 1, Tip.slot), !.mut = m]
    [] m = "slot-future"      -> [c EXCEPT !.slot = Now + 1, !.gen = GenAt(V, Tip.h + 1, Now + 1), !.signer = GenAt(V, Tip.h + 1, Now + 1), !.mut = m]
    [] m = "generator"        -> [c EXCEPT !.gen = OtherGen(c.gen), !.signer = OtherGen(c.gen), !.mut = m]
    [] m = "sig-wrongkey"     -> [c EXCEPT !.signer = OtherGen(c.gen), !.mut = m]
    [] m = "sig-wrongchain"   -> [c EXCEPT !.sig = "wrongchain", !.mut = m]
    [] m = "sig-stale"        -> [c EXCEPT !.sig = "stale", !.mut = m]
    [] m = "sig-stale-mhg"    -> [c EXCEPT !.sig = "stale-mhg", !.mut = m]     \* fields only the signature protects, edited after signing
    [] m = "sig-stale-ts"     -> [c EXCEPT !.sig = "stale-ts", !.mut = m]
    [] m = "sig-stale-stateroot" -> [c EXCEPT !.sig = "stale-stateroot", !.mut = m]
    [] m = "mhp+1"            -> [c EXCEPT !.mhp = @ + 1, !.mut = m]
    [] m = "mhg-zero"         -> [c EXCEPT !.mhg = 0, !.mut = m]
    \* the claim stops at the generator's second-latest own block: it denies the latest one (a contradiction that a
    \* comparison with an OLDER own header in the window does not see)
    [] m = "mhg-deny-latest"  -> (IF SecondLastForged(c.gen) > 0 THEN [c EXCEPT !.mhg = SecondLastForged(c.gen), !.mut = m] ELSE c)
    [] m = "mhg-noclaim"      -> [c EXCEPT !.mhg = c.h, !.mut = m]
    [] m = "ac-height-stale"  -> [c EXCEPT !.ac = [h |-> V.cert, kind |-> "valid", signers |-> Active(V, Max2(V.cert, 1))], !.mut = m]
    [] m = "ac-beyond-precommit" -> [c EXCEPT !.ac = [h |-> V.mhpc + 1, kind |-> "valid", signers |-> Active(V, V.mhpc + 1)], !.mut = m]
    [] m = "ac-beyond-nextparams" ->
         LET nx == NextParamsHeight(V.params, V.cert + 1) IN
         IF nx # 0 /\ nx <= V.mhpc THEN [c EXCEPT !.ac = [h |-> nx, kind |-> "valid", signers |-> Active(V, nx)], !.mut = m] ELSE c
    [] m = "ac-empty-wrong-height" -> [c EXCEPT !.ac = [h |-> V.cert + 1, kind |-> "empty", signers |-> {}], !.mut = m]
    [] m = "ac-badsig"        -> [c EXCEPT !.ac = [h |-> Max2(V.cert + 1, 1), kind |-> "badsig", signers |-> Active(V, Max2(V.cert + 1, 1))], !.mut = m]
    [] m = "ac-wrongblock"    -> [c EXCEPT !.ac = [h |-> Max2(V.cert + 1, 1), kind |-> "wrongblock", signers |-> Active(V, Max2(V.cert + 1, 1))], !.mut = m]
    [] m = "ac-halfempty"     -> [c EXCEPT !.ac = [h |-> V.cert, kind |-> "halfempty", signers |-> {}], !.mut = m]
    [] m = "ac-lowweight"     -> [c EXCEPT !.ac = [h |-> Max2(V.cert + 1, 1), kind |-> "valid", signers |-> {CHOOSE v \in Active(V, Max2(V.cert + 1, 1)) : TRUE}], !.mut = m]
    [] m = "txroot"           -> [c EXCEPT !.txRoot = "bad", !.mut = m]
    [] m = "assetroot"        -> [c EXCEPT !.assetRoot = "bad", !.mut = m]
    [] m = "eventroot"        -> [c EXCEPT !.eventRoot = "bad", !.mut = m]
    [] m = "stateroot"        -> [c EXCEPT !.stateRoot = "bad", !.mut = m]
    [] m = "vhash"            -> [c EXCEPT !.vhash = "bad", !.mut = m]
    [] m = "tx-static"        -> [c EXCEPT !.txStatic = "bad", !.ntx = 1, !.mut = m]
    [] m = "payload-size"     -> [c EXCEPT !.payload = "toolarge", !.ntx = 1, !.mut = m]

AfterBlock(c) ==
  LET v1 == Apply(V, Hdr(c))
  IN IF c.chg = 0 THEN v1
     ELSE SetGenKeys(SetParams(v1, ParamChoices[c.chg].pcT, ParamChoices[c.chg].certT, ParamChoices[c.chg].w), ParamChoices[c.chg].gens)

Obs(ch, vs, f, tp, ev) ==
  [tipH |-> Len(ch), fin |-> f, mhpv |-> vs[Len(vs)].mhpv, mhpc |-> vs[Len(vs)].mhpc, cert |-> vs[Len(vs)].cert,
   temp |-> SetToSortSeq(tp, <), nev |-> Len(ev)]

AcJson(ac) == [h |-> ac.h, kind |-> ac.kind, signers |-> SetToSortSeq(ac.signers, <)]
Step(c, accepted, ch, vs, f, tp, ev, newEvents) ==
  [op |-> "block", version |-> c.version, h |-> c.h, prev |-> c.prev, slot |-> c.slot, gen |-> c.gen, signer |-> c.signer, sig |-> c.sig,
   mhp |-> c.mhp, mhg |-> c.mhg, ac |-> AcJson(c.ac), txRoot |-> c.txRoot, assetRoot |-> c.assetRoot, eventRoot |-> c.eventRoot,
   stateRoot |-> c.stateRoot, vhash |-> c.vhash, txStatic |-> c.txStatic, payload |-> c.payload, chg |-> c.chg, ntx |-> c.ntx, mut |-> c.mut,
   accepted |-> accepted, events |-> newEvents, obs |-> Obs(ch, vs, f, tp, ev)]

Init == /\ chain = <<>> /\ vstack = <<Genesis0>> /\ fin = 0 /\ temp = {} /\ evlog = <<>> /\ script = <<>> /\ recvKnown = FALSE

SubmitValid ==
  /\ Len(chain) < MaxLen /\ Len(script) < MaxSteps
  /\ \E c \in ValidCands :
       /\ Accept(c)
       /\ LET v2 == AfterBlock(c)
              f2 == Max2(fin, v2.mhpc)
              ne == (IF v2.mhpc > fin THEN <<<<"finalize", fin, v2.mhpc>>>> ELSE <<>>) \o <<<<"new", c.h, 0>>>>
                    \o (IF c.chg # 0 THEN <<<<"validators", c.h, 0>>>> ELSE <<>>)
          IN /\ chain' = Append(chain, [h |-> c.h, slot |-> c.slot, gen |-> c.gen, mhg |-> c.mhg, mhp |-> c.mhp, chg |-> c.chg, ntx |-> c.ntx])
             /\ vstack' = Append(vstack, v2)
             /\ fin' = f2
             /\ evlog' = evlog \o ne
             /\ temp' = temp
             /\ script' = Append(script, Step(c, TRUE, chain', vstack', f2, temp, evlog', ne))
             /\ recvKnown' = TRUE

\* single-rule mutants of the valid successors of the current state (all must be rejected and change nothing)
Probes ==
  LET base == {c0 \in ValidCands : c0.chg = 0 /\ c0.ntx = 0 /\ c0.slot = Tip.slot + 1 /\ c0.ac.kind = "empty"}
      muts == {Mutate(c0, m) : c0 \in base, m \in Mutations}
  IN IF Len(chain) >= MaxLen THEN {} ELSE {c \in muts : ~Accept(c)}


NDel == Cardinality({i \in 1..Len(script) : script[i].op = "delete"})
NRestart == Cardinality({i \in 1..Len(script) : script[i].op = "restart"})
DeleteTip ==
  /\ Len(script) < MaxSteps /\ Len(chain) > 0 /\ NDel < MaxDel /\ UNCHANGED recvKnown /\ (DeepRevert => fin > 0)
  /\ \E saveTemp \in BOOLEAN :
       IF Tip.h <= fin
       THEN /\ script' = Append(script, [op |-> "delete", saveTemp |-> saveTemp, ok |-> FALSE, events |-> <<>>, obs |-> Obs(chain, vstack, fin, temp, evlog)])
            /\ UNCHANGED <<chain, vstack, fin, temp, evlog>>
       ELSE /\ chain' = SubSeq(chain, 1, Len(chain) - 1)
            /\ vstack' = SubSeq(vstack, 1, Len(vstack) - 1)
            /\ temp' = IF saveTemp THEN temp \cup {Tip.h} ELSE temp
            /\ evlog' = Append(evlog, <<"delete", Tip.h, 0>>)
            /\ fin' = fin
            /\ script' = Append(script, [op |-> "delete", saveTemp |-> saveTemp, ok |-> TRUE, events |-> <<<<"delete", Tip.h, 0>>>>,
                                         obs |-> Obs(chain', vstack', fin, temp', evlog')])

\* what a synchronisation with a peer whose chain forks below the finalized height does (deleteTillCommonBlock):
\* tips are removed (kept as temporary blocks) one after the other until deleteBlock refuses at the finalized height.
\* One model action, recorded as the individual delete steps with the expected observation after each.
RECURSIVE DownSteps(_, _, _, _)
DownSteps(ch, vs, tp, ev) ==
  IF Len(ch) = 0 THEN <<>>
  ELSE IF ch[Len(ch)].h <= fin
       THEN <<[op |-> "delete", saveTemp |-> TRUE, ok |-> FALSE, events |-> <<>>, obs |-> Obs(ch, vs, fin, tp, ev)]>>
       ELSE LET h == ch[Len(ch)].h
                ch2 == SubSeq(ch, 1, Len(ch) - 1)  vs2 == SubSeq(vs, 1, Len(vs) - 1)
                tp2 == tp \cup {h}  ev2 == Append(ev, <<"delete", h, 0>>)
            IN <<[op |-> "delete", saveTemp |-> TRUE, ok |-> TRUE, events |-> <<<<"delete", h, 0>>>>, obs |-> Obs(ch2, vs2, fin, tp2, ev2)]>>
               \o DownSteps(ch2, vs2, tp2, ev2)
DeleteDown ==
  /\ Len(script) < MaxSteps /\ NDel < MaxDel /\ fin > 0 /\ Len(chain) > fin /\ UNCHANGED recvKnown
  /\ chain' = SubSeq(chain, 1, fin)
  /\ vstack' = SubSeq(vstack, 1, fin + 1)
  /\ temp' = temp \cup (fin + 1)..Len(chain)
  /\ evlog' = evlog \o [i \in 1..(Len(chain) - fin) |-> <<"delete", Len(chain) + 1 - i, 0>>]
  /\ fin' = fin
  /\ script' = script \o DownSteps(chain, vstack, temp, evlog)

\* LIP-0014 tie break: a block competing with the tip (same height, same maxHeightPrevoted, same parent) by the
\* generator of the current slot Now, received within its slot, while the tip (of an earlier slot) was not: the tip
\* is removed and the competitor applied on the parent state.  The finalized height must not move back.
ParentV == vstack[Len(vstack) - 1]
ParentTip == IF Len(chain) = 1 THEN [h |-> 0, slot |-> 0, gen |-> 0, mhg |-> 0, mhp |-> 0] ELSE chain[Len(chain) - 1]
LastForgedBelow(g) ==
  LET hs == {chain[i].h : i \in {j \in 1..(Len(chain) - 1) : chain[j].gen = g}} IN
  IF hs = {} THEN 0 ELSE CHOOSE y \in hs : \A z \in hs : z <= y
TieBreakCand ==
  LET g == GenAt(ParentV, Tip.h, Now) IN
  [version |-> 2, h |-> Tip.h, prev |-> "parent", slot |-> Now, gen |-> g, signer |-> g, sig |-> "ok", mhp |-> ParentV.mhpv,
   mhg |-> LastForgedBelow(g), ac |-> [h |-> ParentV.cert, kind |-> "empty", signers |-> {}],
   txRoot |-> "ok", assetRoot |-> "ok", eventRoot |-> "ok", stateRoot |-> "ok", vhash |-> "ok", txStatic |-> "ok", payload |-> "ok",
   chg |-> 0, ntx |-> 0, mut |-> "none"]
\* invalid competitors of the tip that satisfy the LIP-0014 tie-break conditions: the tip must survive unchanged
TieProbes ==
  IF Len(chain) >= 1 /\ Tip.slot < Now /\ recvKnown /\ Tip.h > fin /\ TieBreakCand.gen # Tip.gen /\ TieBreakCand.mhp = Tip.mhp
  THEN {[TieBreakCand EXCEPT !.signer = OtherGen(TieBreakCand.gen), !.mut = "tiebreak-sig-wrongkey"],
        [TieBreakCand EXCEPT !.stateRoot = "bad", !.mut = "tiebreak-stateroot"],
        \* statically invalid competitors (roots that do not cover the payload, a malformed transaction, an oversized payload)
        [TieBreakCand EXCEPT !.txRoot = "bad", !.ntx = 1, !.mut = "tiebreak-txroot"],
        [TieBreakCand EXCEPT !.assetRoot = "bad", !.mut = "tiebreak-assetroot"],
        [TieBreakCand EXCEPT !.txStatic = "bad", !.ntx = 1, !.mut = "tiebreak-txstatic"],
        [TieBreakCand EXCEPT !.payload = "toolarge", !.ntx = 1, !.mut = "tiebreak-payload"]}
  ELSE {}
\* a second block by the tip's own generator for the same height (double forging) is discarded; so is the tip itself
DoubleForgeProbe ==
  LET g == ParamsAt(ParentV.gkeys, Tip.h).gens  s2 == Tip.slot + Len(g) IN
  IF Len(chain) >= 1 /\ s2 <= Now /\ GenAt(ParentV, Tip.h, s2) = Tip.gen
  THEN {[TieBreakCand EXCEPT !.slot = s2, !.gen = Tip.gen, !.signer = Tip.gen, !.mhg = LastForgedBelow(Tip.gen), !.mut = "double-forging"]}
  ELSE {}

NTie == Cardinality({i \in 1..Len(script) : script[i].op = "tiebreak"})
SubmitTieBreak ==
  /\ Len(script) < MaxSteps /\ Len(chain) >= 1 /\ Tip.slot < Now /\ NTie < MaxTie /\ (DeepRevert => fin > 0)
  /\ UNCHANGED recvKnown        \* the tie-break branch is entered only when it is already TRUE
  /\ LET c == TieBreakCand IN
     /\ c.gen # Tip.gen                       \* same generator would be double forging (discarded)
     /\ c.mhp = Tip.mhp
     /\ ~ContraChain(ParentV, Hdr(c))
     /\ IF Tip.h <= fin \/ ~recvKnown
        THEN \* the tip is final (cannot be removed) or counts as synced (no tie break): nothing changes
             /\ script' = Append(script, [Step(c, FALSE, chain, vstack, fin, temp, evlog, <<>>) EXCEPT !.op = "tiebreak"])
             /\ UNCHANGED <<chain, vstack, fin, temp, evlog>>
        ELSE LET v1 == Apply(ParentV, Hdr(c))
                 f2 == Max2(fin, v1.mhpc)
                 ne == <<<<"delete", Tip.h, 0>>>> \o (IF v1.mhpc > fin THEN <<<<"finalize", fin, v1.mhpc>>>> ELSE <<>>) \o <<<<"new", c.h, 0>>>>
             IN /\ chain' = Append(SubSeq(chain, 1, Len(chain) - 1), [h |-> c.h, slot |-> c.slot, gen |-> c.gen, mhg |-> c.mhg, mhp |-> c.mhp, chg |-> 0, ntx |-> 0])
                /\ vstack' = Append(SubSeq(vstack, 1, Len(vstack) - 1), v1)
                /\ fin' = f2 /\ temp' = temp /\ evlog' = evlog \o ne
                /\ script' = Append(script, [Step(c, TRUE, chain', vstack', f2, temp, evlog', ne) EXCEPT !.op = "tiebreak"])

\* an INVALID competitor that satisfies the tie-break conditions, in the middle of a behaviour: the node removes the tip,
\* rejects the competitor and puts the tip back; nothing changes, nothing is published, and whatever is applied later is
\* published as usual (the events of the attempt are held back and dropped, not the later ones)
NBadTie == Cardinality({i \in 1..Len(script) : script[i].op = "tiebreak" /\ script[i].mut # "none"})
SubmitBadTieBreak ==
  /\ Len(script) < MaxSteps /\ NBadTie < 1 /\ ~DeepRevert
  /\ UNCHANGED <<chain, vstack, fin, temp, evlog, recvKnown>>
  /\ \E c \in TieProbes :
       script' = Append(script, [Step(c, FALSE, chain, vstack, fin, temp, evlog, <<>>) EXCEPT !.op = "tiebreak"])

Restart ==
  /\ Len(script) < MaxSteps /\ Len(script) > 0 /\ NRestart < 1 /\ (DeepRevert => fin > 0)
  /\ script' = Append(script, [op |-> "restart", obs |-> Obs(chain, vstack, fin, temp, evlog)])
  /\ recvKnown' = FALSE
  /\ UNCHANGED <<chain, vstack, fin, temp, evlog>>

Next == SubmitValid \/ SubmitTieBreak \/ SubmitBadTieBreak \/ DeleteTip \/ DeleteDown \/ Restart
Spec == Init /\ [][Next]_vars

(* ------------------------------- properties ------------------------------ *)
\* C04: finalized height never decreases, never exceeds the tip, and follows the precommitted height
FinalMonotone == [][fin' >= fin]_vars
FinalSane == fin <= Len(chain) /\ fin >= V.mhpc /\ (Len(chain) > 0 => fin <= Tip.h)
\* C04: blocks at or below the finalized height are never removed
FinalizedIrreversible == [][\A i \in 1..fin : i <= Len(chain') /\ chain'[i] = chain[i]]_vars
\* liveness of finality, as a state predicate: when every slot since genesis was used (all validators online, one chain,
\* unchanged parameters of three equal weights with threshold 2) a block is final two blocks after it was applied
FullParticipation == \A i \in 1..Len(chain) : chain[i].slot = i /\ chain[i].chg = 0
FinalityKeepsUp == (FullParticipation /\ NVal = 3 /\ InitPCT = 2) => fin >= Len(chain) - FinalityLag
\* C05: delete restores the BFT state that existed before the block was applied
StackShape == Len(vstack) = Len(chain) + 1
\* C03: every probe violates at least one rule, every offered successor satisfies all of them
ProbesRejected == \A c \in Probes : ~Accept(c)
ValidAccepted == \A c \in ValidCands : Accept(c)

Complete == Len(script) = MaxSteps \/ ~ENABLED Next
ProbeSteps == SetToSeq({Step(c, FALSE, chain, vstack, fin, temp, evlog, <<>>) : c \in Probes \cup TieProbes \cup DoubleForgeProbe})
DumpInv == (DumpEvery > 0 /\ Len(script) > 0 /\ RandomElement(1..DumpEvery) = 1)
             => PrintT(<<"DUMP", ToJson([script |-> script, probes |-> ProbeSteps])>>)
=============================================================================
