-------------------------------- MODULE Node --------------------------------
(***************************************************************************)
(* Engine-level model of one node (pkg/consensus.Executer + pkg/blockchain)*)
(* used by C03 (only fully valid blocks extend the chain; rejected blocks  *)
(* change nothing), C04 (finality monotone / irreversible), C05 (delete    *)
(* restores the previous state) and C13 (crash atomicity).                 *)
(*                                                                         *)
(* State                                                                   *)
(*   chain   sequence of applied blocks above genesis (abstract headers)   *)
(*   vstack  vstack[i] = BFT votes (LiskBFT.tla) after block i-1; the last *)
(*           element belongs to the tip; what deleteBlock restores         *)
(*   fin     stored finalized height                                       *)
(*   temp    heights kept as temporary blocks                              *)
(*   evlog   events published so far ("new", "delete", "finalize", ...)    *)
(*   script  history of submitted steps with the expected observation -    *)
(*           printed as JSON and replayed on the real Executer             *)
(* Actions: one per entry point of the consensus goroutine:                *)
(*   SubmitValid   a fully valid successor is processed  (process())       *)
(*   SubmitMutant  a successor violating exactly one rule is processed     *)
(*   DeleteTip     deleteBlock(tip, saveTemp)                              *)
(*   Restart       the node is re-created on its database                  *)
(* Wall-clock: the current slot Now is a constant of a scenario (the       *)
(* harness places the genesis timestamp so that real time is mid-slot Now).*)
(***************************************************************************)
EXTENDS LiskBFT, Json, SequencesExt

CONSTANTS Win, InitW, InitPCT, InitCertT, Gens,    \* Gens: generator list (sequence of validators)
          ParamChoices,   \* sequence of [pcT, certT, w, gens] a block may switch to
          MaxChg, MaxLen, Now, MaxSteps, MaxDel, MaxTie, FinalityLag,
          Mutations,      \* set of mutation names enabled in this configuration
          DeepRevert,     \* TRUE: deletes / restarts / tie breaks only once something is final (simulation runs aimed at reverts down to the finalized height)
          DumpEvery

VARIABLES chain, vstack, fin, temp, evlog, script,
          recvKnown   \* the node knows when it received its tip (FALSE after a restart: the tip counts as synced)
vars == <<chain, vstack, fin, temp, evlog, script, recvKnown>>

Genesis0 == SetGenKeys(SetParams(GenesisVotes(0, Win), InitPCT, InitCertT, InitW), Gens)

Tip == IF Len(chain) = 0 THEN [h |-> 0, slot |-> 0, gen |-> 0, mhg |-> 0, mhp |-> 0] ELSE chain[Len(chain)]
V == vstack[Len(vstack)]
NChg == Cardinality({i \in 1..Len(chain) : chain[i].chg # 0})

GenAt(votes, h, slot) ==
  LET g == ParamsAt(votes.gkeys, h).gens IN g[(slot % Len(g)) + 1]

\* honest maxHeightGenerated: the largest height this validator generated on the current chain
LastForged(g) ==
  LET hs == {chain[i].h : i \in {j \in 1..Len(chain) : chain[j].gen = g}} IN
  IF hs = {} THEN 0 ELSE CHOOSE x \in hs : \A y \in hs : y <= x

SecondLastForged(g) ==
  LET hs == {chain[i].h : i \in {j \in 1..Len(chain) : chain[j].gen = g}} \ {LastForged(g)} IN
  IF hs = {} THEN 0 ELSE CHOOSE x \in hs : \A y \in hs : y <= x

Active(votes, h) == {v \in Validators : ParamsAt(votes.params, h).w[v] > 0}
RECURSIVE WeightOf(_, _)
WeightOf(S, w) == IF S = {} THEN 0 ELSE LET x == CHOOSE y \in S : TRUE IN w[x] + WeightOf(S \ {x}, w)

\* tunables of the candidate part: DEFINED operators with defaults (Certificate.tla / Generator.tla extend this module), a
\* configuration overrides them (`AllSignerSets <- TrueC`, `Shapes <- ShapesWide`)
AllSignerSets == FALSE   \* TRUE: every MINIMAL signer set reaching the certificate threshold is offered (unequal weights)
\* <<ntx, payload, ts>> of the valid successors: payload "max" = transactions of exactly the maximal total size;
\* ts = where inside its slot the block is stamped: "mid", "last" (last second of the slot), "first" (first second)
Shapes == {<<0, "ok", "mid">>, <<1, "ok", "mid">>}
\* the candidate field `ts` is optional (absent = "mid"): records built elsewhere keep their shape
WithTs(c, t) == IF t = "mid" THEN c ELSE [ts |-> t] @@ c
TsOf(c) == IF "ts" \in DOMAIN c THEN c.ts ELSE "mid"

\* signer sets just above the certificate threshold (dropping any signer falls below it) and just below it (adding any
\* other active validator reaches it)
MinimalSets(votes, h) ==
  LET p == ParamsAt(votes.params, h) IN
  {S \in SUBSET Active(votes, h) : WeightOf(S, p.w) >= p.certT /\ \A v \in S : WeightOf(S \ {v}, p.w) < p.certT}
LightSets(votes, h) ==
  LET p == ParamsAt(votes.params, h)  act == Active(votes, h) IN
  {S \in SUBSET act : S # {} /\ WeightOf(S, p.w) < p.certT /\ \A v \in act \ S : WeightOf(S \cup {v}, p.w) >= p.certT}

\* signer sets offered for a valid aggregate commit at height h: everybody, or a smallest-index prefix reaching the threshold
SignerSets(votes, h) ==
  LET p == ParamsAt(votes.params, h)
      act == Active(votes, h)
      prefixes == {{v \in act : v <= k} : k \in Validators}
  IN IF AllSignerSets THEN {act} \cup MinimalSets(votes, h) ELSE
     {act} \cup {S \in prefixes : WeightOf(S, p.w) >= p.certT /\ \A T \in prefixes : (WeightOf(T, p.w) >= p.certT) => Cardinality(S) <= Cardinality(T)}

\* verifyAggregateCommit
ACOk(votes, ac) ==
  IF ac.kind = "empty" THEN ac.h = votes.cert
  ELSE /\ ac.kind = "valid"
       /\ votes.cert < ac.h /\ ac.h <= votes.mhpc
       /\ LET nx == NextParamsHeight(votes.params, votes.cert + 1) IN nx = 0 \/ ac.h <= nx - 1
       /\ HasParamsAt(votes.params, ac.h)
       /\ LET p == ParamsAt(votes.params, ac.h) IN
            ac.signers \subseteq Active(votes, ac.h) /\ WeightOf(ac.signers, p.w) >= p.certT

Hdr(c) == [h |-> c.h, gen |-> c.gen, mhg |-> c.mhg, mhp |-> c.mhp, acH |-> c.ac.h, acNonEmpty |-> c.ac.kind # "empty"]

\* every validity rule of the statement, over the abstract candidate
Accept(c) ==
  /\ c.version = 2
  /\ c.h = Tip.h + 1 /\ c.prev = "tip"
  /\ c.slot > Tip.slot /\ c.slot <= Now
  /\ c.signer = c.gen /\ c.sig = "ok"
  /\ c.mhp = V.mhpv
  /\ c.txRoot = "ok" /\ c.assetRoot = "ok" /\ c.eventRoot = "ok" /\ c.stateRoot = "ok" /\ c.vhash = "ok"
  /\ c.txStatic = "ok" /\ c.payload \in {"ok", "max"}      \* "max": exactly the maximal payload size is still valid
  \* (the conjuncts that cost TLC most come last: most mutants are decided by a field comparison above)
  /\ c.gen = GenAt(V, Tip.h + 1, c.slot)
  /\ ~ContraChain(V, Hdr(c))
  /\ ACOk(V, c.ac)

\* the valid successors offered at the current state
ValidCands ==
  {WithTs([version |-> 2, h |-> Tip.h + 1, prev |-> "tip", slot |-> s, gen |-> GenAt(V, Tip.h + 1, s), signer |-> GenAt(V, Tip.h + 1, s),
    sig |-> "ok", mhp |-> V.mhpv, mhg |-> LastForged(GenAt(V, Tip.h + 1, s)), ac |-> ac,
    txRoot |-> "ok", assetRoot |-> "ok", eventRoot |-> "ok", stateRoot |-> "ok", vhash |-> "ok", txStatic |-> "ok", payload |-> sh[2],
    chg |-> chg, ntx |-> sh[1], mut |-> "none"], sh[3]) :
      s \in (Tip.slot + 1)..Min2(Now, Tip.slot + 2),
      ac \in {[h |-> V.cert, kind |-> "empty", signers |-> {}]} \cup
             {[h |-> pr[1], kind |-> "valid", signers |-> pr[2]] :
                 pr \in UNION {{<<x, S>> : S \in SignerSets(V, x)} :
                               x \in {y \in (V.cert + 1)..V.mhpc : LET nx == NextParamsHeight(V.params, V.cert + 1) IN nx = 0 \/ y <= nx - 1}}},
      chg \in {x \in 0..Len(ParamChoices) : x = 0 \/ NChg < MaxChg},
      sh \in Shapes}

OtherGen(g) == CHOOSE v \in Validators : v # g
Mutate(c, m) ==
  CASE m = "version"          -> [c EXCEPT !.version = 1, !.mut = m]
    [] m = "height+1"         -> [c EXCEPT !.h = @ + 1, !.mut = m]
    [] m = "height-1"         -> [c EXCEPT !.h = @ - 1, !.mut = m]
    [] m = "prev"             -> [c EXCEPT !.prev = "other", !.mut = m]
    [] m = "slot-same"        -> [c EXCEPT !.slot = Tip.slot, !.gen = GenAt(V, Tip.h + 1, Tip.slot), !.signer = GenAt(V, Tip.h + 1, Tip.slot), !.mut = m]
    [] m = "slot-future"      -> [c EXCEPT !.slot = Now + 1, !.gen = GenAt(V, Tip.h + 1, Now + 1), !.signer = GenAt(V, Tip.h + 1, Now + 1), !.mut = m]
    [] m = "generator"        -> [c EXCEPT !.gen = OtherGen(c.gen), !.signer = OtherGen(c.gen), !.mut = m]
    [] m = "sig-wrongkey"     -> [c EXCEPT !.signer = OtherGen(c.gen), !.mut = m]
    [] m = "sig-wrongchain"   -> [c EXCEPT !.sig = "wrongchain", !.mut = m]
    [] m = "sig-stale"        -> [c EXCEPT !.sig = "stale", !.mut = m]
    [] m = "sig-stale-mhg"    -> [c EXCEPT !.sig = "stale-mhg", !.mut = m]     \* fields only the signature protects, edited after signing
    [] m = "sig-stale-ts"     -> [c EXCEPT !.sig = "stale-ts", !.mut = m]
    [] m = "sig-stale-stateroot" -> [c EXCEPT !.sig = "stale-stateroot", !.mut = m]
    [] m = "mhp+1"            -> [c EXCEPT !.mhp = @ + 1, !.mut = m]
    [] m = "mhg-zero"         -> [c EXCEPT !.mhg = 0, !.mut = m]
    \* the claim stops at the generator's second-latest own block: it denies the latest one (a contradiction that a
    \* comparison with an OLDER own header in the window does not see)
    [] m = "mhg-deny-latest"  -> (IF SecondLastForged(c.gen) > 0 THEN [c EXCEPT !.mhg = SecondLastForged(c.gen), !.mut = m] ELSE c)
    [] m = "mhg-noclaim"      -> [c EXCEPT !.mhg = c.h, !.mut = m]
    [] m = "ac-height-stale"  -> [c EXCEPT !.ac = [h |-> V.cert, kind |-> "valid", signers |-> Active(V, Max2(V.cert, 1))], !.mut = m]
    [] m = "ac-beyond-precommit" -> [c EXCEPT !.ac = [h |-> V.mhpc + 1, kind |-> "valid", signers |-> Active(V, V.mhpc + 1)], !.mut = m]
    [] m = "ac-beyond-nextparams" ->
         LET nx == NextParamsHeight(V.params, V.cert + 1) IN
         IF nx # 0 /\ nx <= V.mhpc THEN [c EXCEPT !.ac = [h |-> nx, kind |-> "valid", signers |-> Active(V, nx)], !.mut = m] ELSE c
    [] m = "ac-empty-wrong-height" -> [c EXCEPT !.ac = [h |-> V.cert + 1, kind |-> "empty", signers |-> {}], !.mut = m]
    [] m = "ac-badsig"        -> [c EXCEPT !.ac = [h |-> Max2(V.cert + 1, 1), kind |-> "badsig", signers |-> Active(V, Max2(V.cert + 1, 1))], !.mut = m]
    [] m = "ac-wrongblock"    -> [c EXCEPT !.ac = [h |-> Max2(V.cert + 1, 1), kind |-> "wrongblock", signers |-> Active(V, Max2(V.cert + 1, 1))], !.mut = m]
    [] m = "ac-halfempty"     -> [c EXCEPT !.ac = [h |-> V.cert, kind |-> "halfempty", signers |-> {}], !.mut = m]
    [] m = "ac-lowweight"     -> [c EXCEPT !.ac = [h |-> Max2(V.cert + 1, 1), kind |-> "valid", signers |-> {CHOOSE v \in Active(V, Max2(V.cert + 1, 1)) : TRUE}], !.mut = m]
    [] m = "txroot"           -> [c EXCEPT !.txRoot = "bad", !.mut = m]
    [] m = "assetroot"        -> [c EXCEPT !.assetRoot = "bad", !.mut = m]
    [] m = "eventroot"        -> [c EXCEPT !.eventRoot = "bad", !.mut = m]
    [] m = "stateroot"        -> [c EXCEPT !.stateRoot = "bad", !.mut = m]
    [] m = "vhash"            -> [c EXCEPT !.vhash = "bad", !.mut = m]
    [] m = "tx-static"        -> [c EXCEPT !.txStatic = "bad", !.ntx = 1, !.mut = m]
    [] m = "payload-size"     -> [c EXCEPT !.payload = "toolarge", !.ntx = 1, !.mut = m]
    \* ---- the other side / the other values of the single-valued mutants above
    [] m = "version-0"        -> [c EXCEPT !.version = 0, !.mut = m]
    [] m = "version-3"        -> [c EXCEPT !.version = 3, !.mut = m]
    [] m = "mhp-1"            -> (IF V.mhpv > 0 THEN [c EXCEPT !.mhp = @ - 1, !.mut = m] ELSE c)
    \* a slot BEFORE the tip's, by that slot's generator
    [] m = "slot-past"        -> (IF Tip.slot >= 2 THEN [c EXCEPT !.slot = Tip.slot - 1, !.gen = GenAt(V, Tip.h + 1, Tip.slot - 1), !.signer = GenAt(V, Tip.h + 1, Tip.slot - 1), !.mut = m] ELSE c)
    \* the boundaries in seconds: the last second of the tip's slot, the first second of the first future slot
    [] m = "slot-same-last"   -> WithTs([c EXCEPT !.slot = Tip.slot, !.gen = GenAt(V, Tip.h + 1, Tip.slot), !.signer = GenAt(V, Tip.h + 1, Tip.slot), !.mut = m], "last")
    [] m = "slot-future-first" -> WithTs([c EXCEPT !.slot = Now + 1, !.gen = GenAt(V, Tip.h + 1, Now + 1), !.signer = GenAt(V, Tip.h + 1, Now + 1), !.mut = m], "first")
    \* the aggregate commit is replaced after signing (stripped when the candidate carries one, added when it carries
    \* none): every other rule holds for the header as it arrives, only the signature does not cover it
    [] m = "sig-stale-ac"     -> [c EXCEPT !.sig = "stale-ac", !.mut = m]
    \* ---- each static rule of a transaction on its own; the malformed transaction is the LAST of the payload
    [] m = "tx-static-command"     -> [c EXCEPT !.txStatic = "bad-command", !.ntx = 1, !.mut = m]
    [] m = "tx-static-params-size" -> [c EXCEPT !.txStatic = "bad-params-size", !.ntx = 1, !.mut = m]
    [] m = "tx-static-sender-len"  -> [c EXCEPT !.txStatic = "bad-sender-len", !.ntx = 1, !.mut = m]
    [] m = "tx-static-no-sigs"     -> [c EXCEPT !.txStatic = "no-sigs", !.ntx = 1, !.mut = m]
    [] m = "tx-static-short-sig"   -> [c EXCEPT !.txStatic = "short-sig", !.ntx = 1, !.mut = m]
    [] m = "tx-static-last"        -> [c EXCEPT !.txStatic = "bad", !.ntx = 3, !.mut = m]
    \* two assets whose root matches but whose modules are not sorted / not unique
    [] m = "assets-unsorted"  -> [c EXCEPT !.assetRoot = "unsorted", !.mut = m]
    [] m = "assets-duplicate" -> [c EXCEPT !.assetRoot = "duplicate", !.mut = m]
    \* the root over truly different events (one data byte / one topic of the last event changed), not a flipped root
    [] m = "eventroot-altered-data"  -> [c EXCEPT !.eventRoot = "altered-data", !.ntx = 1, !.mut = m]
    [] m = "eventroot-altered-topic" -> [c EXCEPT !.eventRoot = "altered-topic", !.ntx = 1, !.mut = m]
    \* the hash of ANOTHER well-formed validator set: of a parameter choice the block does not switch to, and - for a
    \* block that does switch - the hash of the set in force before
    [] m = "vhash-other-set"  -> [c EXCEPT !.vhash = "other-set", !.mut = m]
    [] m = "vhash-old-on-change" -> (IF NChg = 0 /\ Len(ParamChoices) > 0 THEN [c EXCEPT !.vhash = "old", !.chg = 1, !.mut = m] ELSE c)
    \* one byte more than the maximal payload size
    [] m = "payload-max+1"    -> [c EXCEPT !.payload = "max+1", !.ntx = 2, !.mut = m]

AfterBlock(c) ==
  LET v1 == Apply(V, Hdr(c))
  IN IF c.chg = 0 THEN v1
     ELSE SetGenKeys(SetParams(v1, ParamChoices[c.chg].pcT, ParamChoices[c.chg].certT, ParamChoices[c.chg].w), ParamChoices[c.chg].gens)

Obs(ch, vs, f, tp, ev) ==
  [tipH |-> Len(ch), fin |-> f, mhpv |-> vs[Len(vs)].mhpv, mhpc |-> vs[Len(vs)].mhpc, cert |-> vs[Len(vs)].cert,
   temp |-> SetToSortSeq(tp, <), nev |-> Len(ev)]

AcJson(ac) == [h |-> ac.h, kind |-> ac.kind, signers |-> SetToSortSeq(ac.signers, <)]
Step(c, accepted, ch, vs, f, tp, ev, newEvents) ==
  [op |-> "block", version |-> c.version, h |-> c.h, prev |-> c.prev, slot |-> c.slot, gen |-> c.gen, signer |-> c.signer, sig |-> c.sig,
   mhp |-> c.mhp, mhg |-> c.mhg, ac |-> AcJson(c.ac), txRoot |-> c.txRoot, assetRoot |-> c.assetRoot, eventRoot |-> c.eventRoot,
   stateRoot |-> c.stateRoot, vhash |-> c.vhash, txStatic |-> c.txStatic, payload |-> c.payload, chg |-> c.chg, ntx |-> c.ntx, mut |-> c.mut,
   ts |-> TsOf(c),
   accepted |-> accepted, events |-> newEvents, obs |-> Obs(ch, vs, f, tp, ev)]

\* tunables of the script actions: DEFINED operators whose defaults are the behaviour before they existed (Certificate.tla
\* and Generator.tla extend this module, so they are no CONSTANTS); a configuration overrides them (`MaxRestart = 2`)
MaxRestart == 1          \* restarts per script
MaxBadTie == 1           \* invalid tie-break competitors per script
MaxMutant == 0           \* invalid successors submitted in the middle of a script (SubmitMutant)
MidMutations == {"stateroot", "vhash", "eventroot", "sig-wrongkey"}   \* three rules checked late in processValidated, one early
KeepFinZero == FALSE     \* TRUE: only successors that finalize nothing (no delete is ever refused: many apply / remove cycles)
RevertFrom == 0          \* deletes / tie breaks / restarts only on chains of at least this length (the region where the BFT window slides)
\* TRUE: deletes and tie breaks only while one of the two topmost blocks pruned BFT parameters / generator keys when it was
\* applied (Prune of LiskBFT.tla removed an entry): the runs aimed at reverting exactly those blocks
RevertNearPrune == FALSE
PrunedAt(i) == \E a \in 1..Len(vstack[i].params) : \A b \in 1..Len(vstack[i + 1].params) : vstack[i + 1].params[b].from # vstack[i].params[a].from
RecentPrune == \E i \in Max2(1, Len(chain) - 1)..Len(chain) : PrunedAt(i)
\* TRUE: the payload of an applied block is a function of its height and slot instead of the candidate's own shape: 0..3
\* transactions and - independently of a validator change - an asset that is none (siblings at one height differ in
\* both; a function rather than a choice, so that the simulation does not branch six-fold at every block)
PayloadMix == FALSE
MixNtx(c) == (c.slot + (c.h \div 2)) % 4
MixAsset(c) == (c.h + c.slot) % 2 = 0
TieNtx == {0}            \* transactions of a tie-break competitor
TieChg == {0}            \* validator change carried by a tie-break competitor (index into ParamChoices, 0 = none)

Init == /\ chain = <<>> /\ vstack = <<Genesis0>> /\ fin = 0 /\ temp = {} /\ evlog = <<>> /\ script = <<>> /\ recvKnown = FALSE

SubmitValid ==
  /\ Len(chain) < MaxLen /\ Len(script) < MaxSteps
  /\ \E c0 \in ValidCands :
      LET c == IF PayloadMix /\ c0.payload = "ok" THEN [c0 EXCEPT !.ntx = MixNtx(c0)] ELSE c0
          asset == PayloadMix /\ MixAsset(c0) IN
       /\ Accept(c)
       /\ LET v2 == AfterBlock(c)
              f2 == Max2(fin, v2.mhpc)
              ne == (IF v2.mhpc > fin THEN <<<<"finalize", fin, v2.mhpc>>>> ELSE <<>>) \o <<<<"new", c.h, 0>>>>
                    \o (IF c.chg # 0 THEN <<<<"validators", c.h, 0>>>> ELSE <<>>)
          IN /\ (KeepFinZero => v2.mhpc = 0)
             /\ chain' = Append(chain, [h |-> c.h, slot |-> c.slot, gen |-> c.gen, mhg |-> c.mhg, mhp |-> c.mhp, chg |-> c.chg, ntx |-> c.ntx])
             /\ vstack' = Append(vstack, v2)
             /\ fin' = f2
             /\ evlog' = evlog \o ne
             /\ temp' = temp
             /\ script' = Append(script, [asset |-> asset] @@ Step(c, TRUE, chain', vstack', f2, temp, evlog', ne))
             /\ recvKnown' = TRUE

\* an INVALID successor (one rule violated) in the middle of a behaviour, through the ordinary branch of process(): it is
\* rejected - three of the rules only after the block was executed -, nothing changes, nothing is published, and whatever
\* is applied later is applied and published as usual (finalize events of later raises included)
NMutant == Cardinality({i \in 1..Len(script) : script[i].op = "mutant"})
SubmitMutant ==
  /\ Len(script) < MaxSteps /\ Len(chain) < MaxLen /\ NMutant < MaxMutant
  /\ UNCHANGED <<chain, vstack, fin, temp, evlog, recvKnown>>
  /\ \E c0 \in {x \in ValidCands : x.chg = 0 /\ x.ntx = 0 /\ x.payload = "ok" /\ TsOf(x) = "mid" /\ x.ac.kind = "empty"}, m \in MidMutations :
       LET c == Mutate(c0, m) IN
       /\ ~Accept(c)
       /\ script' = Append(script, [Step(c, FALSE, chain, vstack, fin, temp, evlog, <<>>) EXCEPT !.op = "mutant"])

\* single-rule mutants of the valid successors of the current state (all must be rejected and change nothing)
\* mutations that are also applied to a base candidate CARRYING a valid aggregate commit (their `mut` ends in "@ac")
\* (only rules the engine checks AFTER the aggregate commit: the signature, the execution result)
AcBaseMutations == {"sig-stale-ac", "sig-stale", "sig-wrongkey", "stateroot"}
\* mutations that yield a SET of candidates per base candidate (handled in Probes, not by Mutate)
SetMutations == {"ac-lightsigners"}
AcHeights == {y \in (V.cert + 1)..V.mhpc : LET nx == NextParamsHeight(V.params, V.cert + 1) IN nx = 0 \/ y <= nx - 1}
PlainCands == {c0 \in ValidCands : c0.chg = 0 /\ c0.ntx = 0 /\ c0.slot = Tip.slot + 1 /\ c0.payload = "ok" /\ TsOf(c0) = "mid"}
ProbeBase == {c0 \in PlainCands : c0.ac.kind = "empty"}
\* spec-level sanity of the mutation catalogue (the filter `~Accept` in Probes would silently drop a mutant that breaks no
\* rule): a mutation either does not apply in this state (the candidate comes back unchanged) or the result violates a rule
\* ("mhg-noclaim" is conditional by design: a header that claims nothing is invalid only where it contradicts an earlier one)
MutantsInvalid == \A c0 \in ProbeBase : \A m \in Mutations \ (SetMutations \cup {"mhg-noclaim"}) : LET c == Mutate(c0, m) IN [c EXCEPT !.mut = "none"] = c0 \/ ~Accept(c)
Probes ==
  LET plain == PlainCands
      base == {c0 \in plain : c0.ac.kind = "empty"}      \* = ProbeBase
      top == IF AcHeights = {} THEN 0 ELSE CHOOSE x \in AcHeights : \A y \in AcHeights : y <= x
      acbase == IF top = 0 THEN {} ELSE {c0 \in plain : c0.ac.kind = "valid" /\ c0.ac.h = top /\ c0.ac.signers = Active(V, top)}
      muts == {Mutate(c0, m) : c0 \in base, m \in Mutations \ SetMutations}
      acmuts == {[Mutate(c0, m) EXCEPT !.mut = @ \o "@ac"] : c0 \in acbase, m \in Mutations \cap AcBaseMutations}
      \* a certificate of the highest certifiable block signed by validators whose weight stays just below the threshold
      light == IF "ac-lightsigners" \in Mutations /\ top > 0
               THEN {[c0 EXCEPT !.ac = [h |-> top, kind |-> "valid", signers |-> S], !.mut = "ac-lightsigners"] : c0 \in base, S \in LightSets(V, top)}
               ELSE {}
  IN IF Len(chain) >= MaxLen THEN {} ELSE {c \in muts \cup acmuts \cup light : ~Accept(c)}


NDel == Cardinality({i \in 1..Len(script) : script[i].op = "delete"})
NRestart == Cardinality({i \in 1..Len(script) : script[i].op = "restart"})
DeleteTip ==
  /\ Len(script) < MaxSteps /\ Len(chain) > 0 /\ NDel < MaxDel /\ UNCHANGED recvKnown /\ (DeepRevert => fin > 0) /\ Len(chain) >= RevertFrom
  /\ (RevertNearPrune => RecentPrune)
  /\ \E saveTemp \in BOOLEAN :
       IF Tip.h <= fin
       THEN /\ script' = Append(script, [op |-> "delete", saveTemp |-> saveTemp, ok |-> FALSE, events |-> <<>>, obs |-> Obs(chain, vstack, fin, temp, evlog)])
            /\ UNCHANGED <<chain, vstack, fin, temp, evlog>>
       ELSE /\ chain' = SubSeq(chain, 1, Len(chain) - 1)
            /\ vstack' = SubSeq(vstack, 1, Len(vstack) - 1)
            /\ temp' = IF saveTemp THEN temp \cup {Tip.h} ELSE temp
            /\ evlog' = Append(evlog, <<"delete", Tip.h, 0>>)
            /\ fin' = fin
            /\ script' = Append(script, [op |-> "delete", saveTemp |-> saveTemp, ok |-> TRUE, events |-> <<<<"delete", Tip.h, 0>>>>,
                                         obs |-> Obs(chain', vstack', fin, temp', evlog')])

\* what a synchronisation with a peer whose chain forks below the finalized height does (deleteTillCommonBlock):
\* tips are removed (kept as temporary blocks) one after the other until deleteBlock refuses at the finalized height.
\* One model action, recorded as the individual delete steps with the expected observation after each.
RECURSIVE DownSteps(_, _, _, _)
DownSteps(ch, vs, tp, ev) ==
  IF Len(ch) = 0 THEN <<>>
  ELSE IF ch[Len(ch)].h <= fin
       THEN <<[op |-> "delete", saveTemp |-> TRUE, ok |-> FALSE, events |-> <<>>, obs |-> Obs(ch, vs, fin, tp, ev)]>>
       ELSE LET h == ch[Len(ch)].h
                ch2 == SubSeq(ch, 1, Len(ch) - 1)  vs2 == SubSeq(vs, 1, Len(vs) - 1)
                tp2 == tp \cup {h}  ev2 == Append(ev, <<"delete", h, 0>>)
            IN <<[op |-> "delete", saveTemp |-> TRUE, ok |-> TRUE, events |-> <<<<"delete", h, 0>>>>, obs |-> Obs(ch2, vs2, fin, tp2, ev2)]>>
               \o DownSteps(ch2, vs2, tp2, ev2)
DeleteDown ==
  /\ Len(script) < MaxSteps /\ NDel < MaxDel /\ fin > 0 /\ Len(chain) > fin /\ UNCHANGED recvKnown
  /\ Len(chain) >= RevertFrom /\ (RevertNearPrune => \E i \in (fin + 1)..Len(chain) : PrunedAt(i))
  /\ chain' = SubSeq(chain, 1, fin)
  /\ vstack' = SubSeq(vstack, 1, fin + 1)
  /\ temp' = temp \cup (fin + 1)..Len(chain)
  /\ evlog' = evlog \o [i \in 1..(Len(chain) - fin) |-> <<"delete", Len(chain) + 1 - i, 0>>]
  /\ fin' = fin
  /\ script' = script \o DownSteps(chain, vstack, temp, evlog)

\* LIP-0014 tie break: a block competing with the tip (same height, same maxHeightPrevoted, same parent) by the
\* generator of the current slot Now, received within its slot, while the tip (of an earlier slot) was not: the tip
\* is removed and the competitor applied on the parent state.  The finalized height must not move back.
ParentV == vstack[Len(vstack) - 1]
ParentTip == IF Len(chain) = 1 THEN [h |-> 0, slot |-> 0, gen |-> 0, mhg |-> 0, mhp |-> 0] ELSE chain[Len(chain) - 1]
LastForgedBelow(g) ==
  LET hs == {chain[i].h : i \in {j \in 1..(Len(chain) - 1) : chain[j].gen = g}} IN
  IF hs = {} THEN 0 ELSE CHOOSE y \in hs : \A z \in hs : z <= y
TieBreakCand ==
  LET g == GenAt(ParentV, Tip.h, Now) IN
  [version |-> 2, h |-> Tip.h, prev |-> "parent", slot |-> Now, gen |-> g, signer |-> g, sig |-> "ok", mhp |-> ParentV.mhpv,
   mhg |-> LastForgedBelow(g), ac |-> [h |-> ParentV.cert, kind |-> "empty", signers |-> {}],
   txRoot |-> "ok", assetRoot |-> "ok", eventRoot |-> "ok", stateRoot |-> "ok", vhash |-> "ok", txStatic |-> "ok", payload |-> "ok",
   chg |-> 0, ntx |-> 0, mut |-> "none"]
\* invalid competitors of the tip that satisfy the LIP-0014 tie-break conditions: the tip must survive unchanged
TieProbes ==
  IF Len(chain) >= 1 /\ Tip.slot < Now /\ recvKnown /\ Tip.h > fin /\ TieBreakCand.gen # Tip.gen /\ TieBreakCand.mhp = Tip.mhp
  THEN {[TieBreakCand EXCEPT !.signer = OtherGen(TieBreakCand.gen), !.mut = "tiebreak-sig-wrongkey"],
        [TieBreakCand EXCEPT !.stateRoot = "bad", !.mut = "tiebreak-stateroot"],
        \* statically invalid competitors (roots that do not cover the payload, a malformed transaction, an oversized payload)
        [TieBreakCand EXCEPT !.txRoot = "bad", !.ntx = 1, !.mut = "tiebreak-txroot"],
        [TieBreakCand EXCEPT !.assetRoot = "bad", !.mut = "tiebreak-assetroot"],
        [TieBreakCand EXCEPT !.txStatic = "bad", !.ntx = 1, !.mut = "tiebreak-txstatic"],
        [TieBreakCand EXCEPT !.payload = "toolarge", !.ntx = 1, !.mut = "tiebreak-payload"],
        \* each static transaction rule on its own (the malformed transaction last), invalid asset lists, one byte too many
        [TieBreakCand EXCEPT !.txStatic = "bad-command", !.ntx = 1, !.mut = "tiebreak-txstatic-command"],
        [TieBreakCand EXCEPT !.txStatic = "bad-params-size", !.ntx = 1, !.mut = "tiebreak-txstatic-params-size"],
        [TieBreakCand EXCEPT !.txStatic = "bad-sender-len", !.ntx = 1, !.mut = "tiebreak-txstatic-sender-len"],
        [TieBreakCand EXCEPT !.txStatic = "no-sigs", !.ntx = 1, !.mut = "tiebreak-txstatic-no-sigs"],
        [TieBreakCand EXCEPT !.txStatic = "short-sig", !.ntx = 1, !.mut = "tiebreak-txstatic-short-sig"],
        [TieBreakCand EXCEPT !.txStatic = "bad", !.ntx = 3, !.mut = "tiebreak-txstatic-last"],
        [TieBreakCand EXCEPT !.assetRoot = "unsorted", !.mut = "tiebreak-assets-unsorted"],
        [TieBreakCand EXCEPT !.assetRoot = "duplicate", !.mut = "tiebreak-assets-duplicate"],
        [TieBreakCand EXCEPT !.payload = "max+1", !.ntx = 2, !.mut = "tiebreak-payload-max+1"]}
  ELSE {}
\* a second block by the tip's own generator for the same height (double forging) is discarded; so is the tip itself
DoubleForgeProbe ==
  LET g == ParamsAt(ParentV.gkeys, Tip.h).gens  s2 == Tip.slot + Len(g) IN
  IF Len(chain) >= 1 /\ s2 <= Now /\ GenAt(ParentV, Tip.h, s2) = Tip.gen
  THEN {[TieBreakCand EXCEPT !.slot = s2, !.gen = Tip.gen, !.signer = Tip.gen, !.mhg = LastForgedBelow(Tip.gen), !.mut = "double-forging"]}
  ELSE {}

NTie == Cardinality({i \in 1..Len(script) : script[i].op = "tiebreak"})
NChgBelowTip == Cardinality({i \in 1..(Len(chain) - 1) : chain[i].chg # 0})
\* the BFT state after block c on the state v (c may carry a validator change)
AfterBlockOn(v, c) ==
  LET v1 == Apply(v, Hdr(c))
  IN IF c.chg = 0 THEN v1
     ELSE SetGenKeys(SetParams(v1, ParamChoices[c.chg].pcT, ParamChoices[c.chg].certT, ParamChoices[c.chg].w), ParamChoices[c.chg].gens)
SubmitTieBreak ==
  /\ Len(script) < MaxSteps /\ Len(chain) >= 1 /\ Tip.slot < Now /\ NTie < MaxTie /\ (DeepRevert => fin > 0) /\ Len(chain) >= RevertFrom
  /\ (RevertNearPrune => RecentPrune)
  /\ UNCHANGED recvKnown        \* the tie-break branch is entered only when it is already TRUE
  /\ \E nx \in TieNtx, cg \in {x \in TieChg : x = 0 \/ (x <= Len(ParamChoices) /\ NChgBelowTip < MaxChg)} :
     LET c == [TieBreakCand EXCEPT !.ntx = nx, !.chg = cg] IN
     /\ c.gen # Tip.gen                       \* same generator would be double forging (discarded)
     /\ c.mhp = Tip.mhp
     /\ ~ContraChain(ParentV, Hdr(c))
     /\ IF Tip.h <= fin \/ ~recvKnown
        THEN \* the tip is final (cannot be removed) or counts as synced (no tie break): nothing changes
             /\ script' = Append(script, [Step(c, FALSE, chain, vstack, fin, temp, evlog, <<>>) EXCEPT !.op = "tiebreak"])
             /\ UNCHANGED <<chain, vstack, fin, temp, evlog>>
        ELSE LET v1 == AfterBlockOn(ParentV, c)
                 f2 == Max2(fin, v1.mhpc)
                 ne == <<<<"delete", Tip.h, 0>>>> \o (IF v1.mhpc > fin THEN <<<<"finalize", fin, v1.mhpc>>>> ELSE <<>>) \o <<<<"new", c.h, 0>>>>
                       \o (IF c.chg # 0 THEN <<<<"validators", c.h, 0>>>> ELSE <<>>)
             IN /\ chain' = Append(SubSeq(chain, 1, Len(chain) - 1), [h |-> c.h, slot |-> c.slot, gen |-> c.gen, mhg |-> c.mhg, mhp |-> c.mhp, chg |-> c.chg, ntx |-> c.ntx])
                /\ vstack' = Append(SubSeq(vstack, 1, Len(vstack) - 1), v1)
                /\ fin' = f2 /\ temp' = temp /\ evlog' = evlog \o ne
                /\ script' = Append(script, [Step(c, TRUE, chain', vstack', f2, temp, evlog', ne) EXCEPT !.op = "tiebreak"])

\* an INVALID competitor that satisfies the tie-break conditions, in the middle of a behaviour: the node removes the tip,
\* rejects the competitor and puts the tip back; nothing changes, nothing is published, and whatever is applied later is
\* published as usual (the events of the attempt are held back and dropped, not the later ones)
NBadTie == Cardinality({i \in 1..Len(script) : script[i].op = "tiebreak" /\ script[i].mut # "none"})
SubmitBadTieBreak ==
  /\ Len(script) < MaxSteps /\ NBadTie < MaxBadTie /\ ~DeepRevert
  /\ UNCHANGED <<chain, vstack, fin, temp, evlog, recvKnown>>
  /\ \E c \in TieProbes :
       script' = Append(script, [Step(c, FALSE, chain, vstack, fin, temp, evlog, <<>>) EXCEPT !.op = "tiebreak"])

Restart ==
  /\ Len(script) < MaxSteps /\ Len(script) > 0 /\ NRestart < MaxRestart /\ (DeepRevert => fin > 0) /\ Len(chain) >= RevertFrom
  /\ script' = Append(script, [op |-> "restart", obs |-> Obs(chain, vstack, fin, temp, evlog)])
  /\ recvKnown' = FALSE
  /\ UNCHANGED <<chain, vstack, fin, temp, evlog>>

Next == SubmitValid \/ SubmitMutant \/ SubmitTieBreak \/ SubmitBadTieBreak \/ DeleteTip \/ DeleteDown \/ Restart
Spec == Init /\ [][Next]_vars

(* ------------------------------- properties ------------------------------ *)
\* C04: finalized height never decreases, never exceeds the tip, and follows the precommitted height
FinalMonotone == [][fin' >= fin]_vars
FinalSane == fin <= Len(chain) /\ fin >= V.mhpc /\ (Len(chain) > 0 => fin <= Tip.h)
\* C04: blocks at or below the finalized height are never removed
FinalizedIrreversible == [][\A i \in 1..fin : i <= Len(chain') /\ chain'[i] = chain[i]]_vars
\* liveness of finality, as a state predicate: when every slot since genesis was used (all validators online, one chain,
\* unchanged parameters of three equal weights with threshold 2) a block is final two blocks after it was applied
FullParticipation == \A i \in 1..Len(chain) : chain[i].slot = i /\ chain[i].chg = 0
FinalityKeepsUp == (FullParticipation /\ NVal = 3 /\ InitPCT = 2) => fin >= Len(chain) - FinalityLag
\* C05: delete restores the BFT state that existed before the block was applied
StackShape == Len(vstack) = Len(chain) + 1
\* C03: every probe violates at least one rule, every offered successor satisfies all of them
ProbesRejected == \A c \in Probes : ~Accept(c)
ValidAccepted == \A c \in ValidCands : Accept(c)

Complete == Len(script) = MaxSteps \/ ~ENABLED Next
ProbeSteps == SetToSeq({Step(c, FALSE, chain, vstack, fin, temp, evlog, <<>>) : c \in Probes \cup TieProbes \cup DoubleForgeProbe})
DumpInv == (DumpEvery > 0 /\ Len(script) > 0 /\ RandomElement(1..DumpEvery) = 1)
             => PrintT(<<"DUMP", ToJson([script |-> script, probes |-> ProbeSteps])>>)
=============================================================================
