------------------------------- MODULE Crash -------------------------------
(***************************************************************************)
(* Crash atomicity of block commit / removal (property C13).               *)
(*                                                                         *)
(* A step of the statement (AddBlock / RemoveBlock / processValidated /    *)
(* deleteBlock, the genesis commit, the tie-break composite) is modelled   *)
(* the way the code is shaped: prepare (reads, application call), a        *)
(* sequence of writes to the database, cache update.  One write is         *)
(* all-or-nothing (pebble WAL record - trusted); it is either synced by    *)
(* itself or left to a later sync of the same log.  A crash may happen     *)
(* between any two sub-steps, under one of two crash models:               *)
(*   powerloss     everything that was not synced is lost                  *)
(*   processdeath  everything handed to the operating system survives      *)
(* Recover is PrepareCache on what the crash left.                         *)
(*                                                                         *)
(* The database is abstracted to the set of EFFECTS of the step that are   *)
(* found at restart.  An implementation SHAPE says                         *)
(*   stages  the atomic sub-steps the STATEMENT sees (a plain step has one *)
(*           stage; a tie break has two: removal of the tip, addition of   *)
(*           the competitor), each a set of effects                        *)
(*   layout  write i carries the effects layout[i]                         *)
(*   synced  synced[i]: write i is followed by its own sync                *)
(*   needs   the OPTIONAL effects (not named by the statement: pruning of  *)
(*           revert diffs / events of finalized heights) with the effects  *)
(*           each of them depends on: the pruned data is dead only once    *)
(*           the raised finalized height is durable                        *)
(*   safe    the crash models under which the shape must be atomic         *)
(*                                                                         *)
(* AtomicRecovery: whatever the crash point, the effects found at restart  *)
(* are, apart from optional ones, exactly those of a prefix of the stages  *)
(* (none or all for a plain step), and an optional effect is never found   *)
(* without what it needs.  A recovered node that found none of the effects *)
(* can perform the step again and then has all of them (Redo).             *)
(*                                                                         *)
(* The code's intended shape is one batch per stage.  The harness measures *)
(* which states the real code exposes over all file-system crash points    *)
(* under both crash models; CrashTrace.tla checks each observation.        *)
(***************************************************************************)
EXTENDS Integers, Sequences, FiniteSets, TLC

CONSTANTS Shapes     \* set of [name, stages, layout, synced, needs, safe]
CrashModels == {"powerloss", "processdeath"}

VARIABLES shape, model, pc, written, durable, crashed, recovered, redone
vars == <<shape, model, pc, written, durable, crashed, recovered, redone>>

Writes == Len(shape.layout)
Upto(st, i) == UNION {st[j] : j \in 1..i}
Effects == Upto(shape.stages, Len(shape.stages))
Optional == DOMAIN shape.needs

\* what the restarted node finds
Found == IF model = "processdeath" THEN written ELSE durable

\* pure form, also used on harness observations: found is a prefix of the stages apart from optional effects, and no optional
\* effect without its prerequisites
Admissible(found, stages, needs) ==
  /\ \E i \in 0..Len(stages) : found \ DOMAIN needs = Upto(stages, i) \ DOMAIN needs
  /\ \A e \in found \cap DOMAIN needs : needs[e] \subseteq found

Init == /\ shape \in Shapes /\ model \in CrashModels
        /\ pc = 0 /\ written = {} /\ durable = {} /\ crashed = FALSE /\ recovered = FALSE /\ redone = FALSE
\* pc 0: before prepare; 1..Writes: before write pc; Writes+1: before cache update; Writes+2: done
Prepare == pc = 0 /\ ~crashed /\ pc' = 1 /\ UNCHANGED <<shape, model, written, durable, crashed, recovered, redone>>
Write == /\ pc \in 1..Writes /\ ~crashed
         /\ written' = written \cup shape.layout[pc]
         /\ durable' = IF shape.synced[pc] THEN written' ELSE durable      \* one log: a sync carries everything written before it
         /\ pc' = pc + 1 /\ UNCHANGED <<shape, model, crashed, recovered, redone>>
CacheUpdate == pc = Writes + 1 /\ ~crashed /\ pc' = pc + 1 /\ UNCHANGED <<shape, model, written, durable, crashed, recovered, redone>>
CrashNow == ~crashed /\ pc <= Writes + 1 /\ crashed' = TRUE /\ UNCHANGED <<shape, model, pc, written, durable, recovered, redone>>
Recover == crashed /\ ~recovered /\ recovered' = TRUE /\ UNCHANGED <<shape, model, pc, written, durable, crashed, redone>>
\* the recovered node is on the state before the step: it performs the step again, this time to the end
Redo == /\ recovered /\ ~redone /\ Found \ Optional = {} /\ Admissible(Found, shape.stages, shape.needs)
        /\ written' = Effects /\ durable' = Effects /\ redone' = TRUE
        /\ UNCHANGED <<shape, model, pc, crashed, recovered>>

Next == Prepare \/ Write \/ CacheUpdate \/ CrashNow \/ Recover \/ Redo
Spec == Init /\ [][Next]_vars

LayoutOK == \A s \in Shapes : Upto(s.layout, Len(s.layout)) = Upto(s.stages, Len(s.stages)) /\ Len(s.synced) = Len(s.layout)
AtomicOK == Admissible(Found, shape.stages, shape.needs)
AtomicRecovery == (recovered /\ model \in shape.safe) => AtomicOK
RedoCompletes == redone => Found = Effects
\* non-vacuity control: every shape / crash model that is NOT expected to be atomic really exposes a forbidden state
\* (always TRUE; the driver collects the printed names and compares them with the expected list)
Control == (recovered /\ ~redone /\ model \notin shape.safe /\ ~AtomicOK) => PrintT(<<"CONTROL", shape.name, model>>)
=============================================================================
