------------------------------- MODULE Crash -------------------------------
(***************************************************************************)
(* Crash atomicity of block commit / removal (property C13).               *)
(* A step (ProcessValidated, DeleteBlock) is split the way the code is     *)
(* shaped: prepare (reads, application call), Writes durable writes, cache *)
(* update.  The database write itself is all-or-nothing (pebble WAL record *)
(* - trusted).  Crash may happen between any two sub-steps; Recover is     *)
(* PrepareCache on the durable state.  The durable state is abstracted to  *)
(* the set of "effects" of the step that have reached the disk: the step   *)
(* has NEffects effects (block+indexes, consensus store, revert diff,      *)
(* finalized height ...) distributed over the Writes writes by the         *)
(* implementation-shape constant Layout (sequence: write i carries the     *)
(* effects Layout[i]).  AtomicRecovery: whatever the crash point, the      *)
(* recovered state has all effects of the step or none.                    *)
(* The code's intended shape is Layout = << all effects >> (one batch).    *)
(* The harness measures which durable states the real code exposes over    *)
(* all file-system crash points; CrashTrace.tla checks each observation.   *)
(***************************************************************************)
EXTENDS Integers, Sequences, FiniteSets, TLC

CONSTANTS Effects,   \* set of effect names of one step
          Layout     \* sequence of sets of effects: the durable writes of the step, in order

VARIABLES pc, durable, crashed, recovered
vars == <<pc, durable, crashed, recovered>>

Writes == Len(Layout)

Init == pc = 0 /\ durable = {} /\ crashed = FALSE /\ recovered = FALSE
\* pc 0: before prepare; 1..Writes: before write pc; Writes+1: before cache update; Writes+2: done
Prepare == pc = 0 /\ ~crashed /\ pc' = 1 /\ UNCHANGED <<durable, crashed, recovered>>
Write == /\ pc \in 1..Writes /\ ~crashed
         /\ durable' = durable \cup Layout[pc] /\ pc' = pc + 1 /\ UNCHANGED <<crashed, recovered>>
CacheUpdate == pc = Writes + 1 /\ ~crashed /\ pc' = pc + 1 /\ UNCHANGED <<durable, crashed, recovered>>
CrashNow == ~crashed /\ pc <= Writes + 1 /\ crashed' = TRUE /\ UNCHANGED <<pc, durable, recovered>>
Recover == crashed /\ ~recovered /\ recovered' = TRUE /\ UNCHANGED <<pc, durable, crashed>>

Next == Prepare \/ Write \/ CacheUpdate \/ CrashNow \/ Recover
Spec == Init /\ [][Next]_vars

LayoutOK == UNION {Layout[i] : i \in 1..Writes} = Effects
AtomicRecovery == recovered => (durable = {} \/ durable = Effects)
=============================================================================
