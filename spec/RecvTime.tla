------------------------------ MODULE RecvTime ------------------------------
(***************************************************************************)
(* Fork choice under a MOVING wall clock (LIP-0014, pkg/consensus/execute.go *)
(* process() + pkg/consensus/forkchoice).                                   *)
(*                                                                         *)
(* Node.tla and Net.tla pin the wall clock to one slot per scenario, so    *)
(* "the tip was received within its slot" is a function of the tip there.   *)
(* Here the clock advances between steps and the node has to REMEMBER in    *)
(* which slot its tip arrived:                                              *)
(*   recv   slot in which the current tip was received, None after a        *)
(*          restart (a tip loaded from disk counts as received in time)     *)
(* One node, one chain position.  Slots are relative to the first slot of   *)
(* the scenario; the initial tip was generated in slot -1 and handed to the *)
(* node in slot 0 (received late).                                          *)
(*                                                                         *)
(* Offered blocks (all with a slot above the tip's, none in the future):    *)
(*   child(s, ok|bad)  height+1 on the tip, by the generator of slot s;     *)
(*                     bad = signed with another validator's key            *)
(*   comp(s, ok|bad)   same height and parent as the tip                     *)
(* LIP-0014: comp is a tie break iff it is by another generator, the tip    *)
(* was received outside its slot and comp is received within its own slot;  *)
(* anything else at the tip's height is discarded.  C03: an offered block   *)
(* that is rejected changes nothing - in particular not what the node       *)
(* remembers about its tip.                                                 *)
(***************************************************************************)
EXTENDS Integers, Sequences, TLC, Json
CONSTANTS Ticks,      \* wall-clock slots 0 .. Ticks-1
          NVal,       \* round-robin: two slots have the same generator iff they differ by a multiple of NVal
          MaxSteps, MaxRestart, DumpEvery
VARIABLES now, height, tslot, recv, script
vars == <<now, height, tslot, recv, script>>
None == -9

Init == now = 0 /\ height = 0 /\ tslot = -1 /\ recv = 0 /\ script = <<>>

TipLate == recv # None /\ recv # tslot
SameGen(s) == (s - tslot) % NVal = 0
Slots == {s \in 0..(Ticks - 1) : tslot < s /\ s <= now}

Step(op, s, ok, exp) == [op |-> op, s |-> s, ok |-> ok, exp |-> exp, now |-> now, late |-> TipLate]
More == Len(script) < MaxSteps

Tick == /\ More /\ now < Ticks - 1 /\ now' = now + 1
        /\ script' = Append(script, Step("tick", 0, TRUE, "none"))
        /\ UNCHANGED <<height, tslot, recv>>

Child(s, ok) ==
  /\ More /\ s \in Slots
  /\ IF ok THEN /\ height' = height + 1 /\ tslot' = s /\ recv' = now
                /\ script' = Append(script, Step("child", s, ok, "accept"))
           ELSE /\ UNCHANGED <<height, tslot, recv>>
                /\ script' = Append(script, Step("child", s, ok, "none"))
  /\ UNCHANGED now

IsTieBreak(s) == ~SameGen(s) /\ TipLate /\ s = now
Comp(s, ok) ==
  /\ More /\ s \in Slots /\ height > 0          \* a competitor of the initial tip would need a second branch in the set-up
  /\ IF IsTieBreak(s) /\ ok
     THEN /\ tslot' = s /\ recv' = now /\ UNCHANGED height
          /\ script' = Append(script, Step("comp", s, ok, "replace"))
     ELSE /\ UNCHANGED <<height, tslot, recv>>
          /\ script' = Append(script, Step("comp", s, ok, "none"))
  /\ UNCHANGED now

NRestart == LET F[i \in 0..Len(script)] == IF i = 0 THEN 0 ELSE F[i - 1] + (IF script[i].op = "restart" THEN 1 ELSE 0) IN F[Len(script)]
Restart == /\ More /\ NRestart < MaxRestart /\ recv' = None
           /\ script' = Append(script, Step("restart", 0, TRUE, "none"))
           /\ UNCHANGED <<now, height, tslot>>

Next == Tick \/ Restart \/ \E s \in 0..(Ticks - 1), ok \in BOOLEAN : Child(s, ok) \/ Comp(s, ok)
Spec == Init /\ [][Next]_vars

(* ------------------------------- properties ------------------------------ *)
TypeOK == now \in 0..(Ticks - 1) /\ tslot \in -1..(Ticks - 1) /\ tslot <= now /\ (recv = None \/ (recv >= tslot /\ recv <= now))
\* a tip that arrived within its slot is never replaced by a tie break (action property over the script)
InTimeTipStays == \A i \in 1..Len(script) : script[i].exp = "replace" => script[i].late
\* rejected blocks change nothing (by construction of the actions; stated so that a change of the model is noticed)
RejectedChangesNothing == [][\A s \in 0..(Ticks - 1) : (Child(s, FALSE) \/ (Comp(s, FALSE))) => UNCHANGED <<height, tslot, recv>>]_vars

HasComp == \E i \in 1..Len(script) : script[i].op = "comp"
DumpInv == (DumpEvery > 0 /\ Len(script) = MaxSteps /\ HasComp /\ RandomElement(1..DumpEvery) = 1)
             => PrintT(<<"DUMP", ToJson([script |-> script])>>)
=============================================================================
