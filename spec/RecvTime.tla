------------------------------ MODULE RecvTime ------------------------------
(***************************************************************************)
(* Fork choice under a MOVING wall clock (LIP-0014, pkg/consensus/execute.go *)
(* process() + pkg/consensus/forkchoice).                                   *)
(*                                                                         *)
(* Node.tla and Net.tla pin the wall clock to one slot per scenario, so    *)
(* "the tip was received within its slot" is a function of the tip there.   *)
(* Here the clock advances between steps and the node has to REMEMBER in    *)
(* which slot its tip arrived:                                              *)
(*   recv   slot in which the current tip was received, None after a        *)
(*          restart (a tip loaded from disk counts as received in time)     *)
(* One node, one chain position.  Slots are relative to the first slot of   *)
(* the scenario; the initial tip was generated in slot -1 and handed to the *)
(* node in slot 0 (received late).                                          *)
(*                                                                         *)
(* Offered blocks (all with a slot above the tip's, none in the future):    *)
(*   child(s, kind)    height+1 on the tip, by the generator of slot s       *)
(*   comp(s, kind)     same height and parent as the tip                     *)
(*   kind: "ok"    a valid block                                             *)
(*         "bad"   signed with another validator's key                       *)
(*         "lying" correctly signed by the slot's generator, which already   *)
(*                 has a block on the node's chain (inside the BFT window)   *)
(*                 and now claims maxHeightGenerated = that height - 1: the  *)
(*                 header CONTRADICTS the generator's own earlier header     *)
(*                 (LIP-0014), so the block is invalid - whichever branch    *)
(*                 of the cascade it arrives through                         *)
(* LIP-0014: comp is a tie break iff it is by another generator, the tip    *)
(* was received outside its slot and comp is received within its own slot;  *)
(* anything else at the tip's height is discarded.  C03: an offered block   *)
(* that is rejected changes nothing - in particular not what the node       *)
(* remembers about its tip.                                                 *)
(*                                                                         *)
(* pos: WHERE inside a wall-clock slot the steps of the behaviour happen:   *)
(* "start" = in its first second, "end" = in its last second ("received     *)
(* within its slot" is decided on whole seconds, so these are the boundary  *)
(* values of the interval).  The model's verdicts do not depend on it - the *)
(* replay places the steps accordingly.                                     *)
(***************************************************************************)
EXTENDS Integers, Sequences, TLC, Json
CONSTANTS Ticks,      \* wall-clock slots 0 .. Ticks-1
          NVal,       \* round-robin: two slots have the same generator iff they differ by a multiple of NVal
          MaxSteps, MaxRestart, DumpEvery,
          Want        \* which complete scripts the dump keeps: "comp" (one with a competitor) | "lying" (one with a contradicting block)
VARIABLES now, height, tslot, recv, script,
          chain,      \* slots of the blocks on the node's chain above genesis, oldest first (who generated what)
          pos
vars == <<now, height, tslot, recv, script, chain, pos>>
None == -9
Kinds == {"ok", "bad", "lying"}

Init == now = 0 /\ height = 0 /\ tslot = -1 /\ recv = 0 /\ script = <<>> /\ chain = <<-1>> /\ pos \in {"start", "end"}

TipLate == recv # None /\ recv # tslot
SameGen(s) == (s - tslot) % NVal = 0
Slots == {s \in 0..(Ticks - 1) : tslot < s /\ s <= now}

\* the generator of slot s has a block among the first n blocks of the chain
Forged(s, n) == \E i \in 1..n : (chain[i] - s) % NVal = 0
Step(op, s, kind, exp) == [op |-> op, s |-> s, ok |-> kind = "ok", kind |-> kind, exp |-> exp, now |-> now, late |-> TipLate, pos |-> pos]
More == Len(script) < MaxSteps

Tick == /\ More /\ now < Ticks - 1 /\ now' = now + 1
        /\ script' = Append(script, Step("tick", 0, "ok", "none"))
        /\ UNCHANGED <<height, tslot, recv, chain, pos>>

Child(s, kind) ==
  /\ More /\ s \in Slots
  /\ (kind = "lying" => Forged(s, Len(chain)))
  /\ IF kind = "ok" THEN /\ height' = height + 1 /\ tslot' = s /\ recv' = now /\ chain' = Append(chain, s)
                        /\ script' = Append(script, Step("child", s, kind, "accept"))
           ELSE /\ UNCHANGED <<height, tslot, recv, chain>>
                /\ script' = Append(script, Step("child", s, kind, "none"))
  /\ UNCHANGED <<now, pos>>

IsTieBreak(s) == ~SameGen(s) /\ TipLate /\ s = now
Comp(s, kind) ==
  /\ More /\ s \in Slots /\ height > 0          \* a competitor of the initial tip would need a second branch in the set-up
  /\ (kind = "lying" => Forged(s, Len(chain) - 1) /\ ~SameGen(s))   \* its own earlier block lies BELOW the tip
  /\ IF IsTieBreak(s) /\ kind = "ok"
     THEN /\ tslot' = s /\ recv' = now /\ UNCHANGED height /\ chain' = [chain EXCEPT ![Len(chain)] = s]
          /\ script' = Append(script, Step("comp", s, kind, "replace"))
     ELSE /\ UNCHANGED <<height, tslot, recv, chain>>
          /\ script' = Append(script, Step("comp", s, kind, "none"))
  /\ UNCHANGED <<now, pos>>

NRestart == LET F[i \in 0..Len(script)] == IF i = 0 THEN 0 ELSE F[i - 1] + (IF script[i].op = "restart" THEN 1 ELSE 0) IN F[Len(script)]
Restart == /\ More /\ NRestart < MaxRestart /\ recv' = None
           /\ script' = Append(script, Step("restart", 0, "ok", "none"))
           /\ UNCHANGED <<now, height, tslot, chain, pos>>

Next == Tick \/ Restart \/ \E s \in 0..(Ticks - 1), kind \in Kinds : Child(s, kind) \/ Comp(s, kind)
Spec == Init /\ [][Next]_vars

(* ------------------------------- properties ------------------------------ *)
TypeOK == /\ now \in 0..(Ticks - 1) /\ tslot \in -1..(Ticks - 1) /\ tslot <= now /\ (recv = None \/ (recv >= tslot /\ recv <= now))
          /\ Len(chain) = height + 1 /\ chain[Len(chain)] = tslot
          /\ \A i \in 1..(Len(chain) - 1) : chain[i] < chain[i + 1]
\* a tip that arrived within its slot is never replaced by a tie break (action property over the script)
InTimeTipStays == \A i \in 1..Len(script) : script[i].exp = "replace" => script[i].late
\* rejected blocks change nothing (by construction of the actions; stated so that a change of the model is noticed)
RejectedChangesNothing == [][\A s \in 0..(Ticks - 1), kind \in Kinds \ {"ok"} : (Child(s, kind) \/ Comp(s, kind)) => UNCHANGED <<height, tslot, recv, chain>>]_vars
\* a header that contradicts its generator's earlier header on the chain never gets onto the chain (whatever the clock says)
LyingNeverAccepted == \A i \in 1..Len(script) : script[i].kind = "lying" => script[i].exp = "none"


HasComp == \E i \in 1..Len(script) : script[i].op = "comp"
HasLying == \E i \in 1..Len(script) : script[i].kind = "lying"
DumpInv == (DumpEvery > 0 /\ Len(script) = MaxSteps /\ (IF Want = "lying" THEN HasLying ELSE HasComp) /\ RandomElement(1..DumpEvery) = 1)
             => PrintT(<<"DUMP", ToJson([script |-> script, nval |-> NVal])>>)
=============================================================================
