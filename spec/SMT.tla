-------------------------------- MODULE SMT --------------------------------
(***************************************************************************)
(* Sparse Merkle trie (LIP-0039, pkg/trie/smt) - property C10.             *)
(* Hashes are never computed here: the root is a TERM                      *)
(*    Empty | Leaf(k, v) | Branch(l, r)                                    *)
(* under the assumption that the hash is injective; the harness folds the  *)
(* exported term with real SHA-256.  Tree(M) is the canonical LIP-0039     *)
(* tree of the map M: empty for {}, a leaf lifted to the highest position  *)
(* for a singleton, else a branch over the two halves of the key space.    *)
(* History independence is the DEFINITION on this side (the root term is a *)
(* function of m only) and the obligation on the implementation side.      *)
(*   m     : key index -> value (0 = absent)                               *)
(*   trace : the history of batches with the expected term / query results *)
(* Steps: Update(batch) incl. the empty batch, Reopen, DupUpdate (a batch   *)
(* naming one key twice: either operation may win).  Next is the plain      *)
(* relation (exhaustive runs), NextW the weighted one for simulation.       *)
(***************************************************************************)
EXTENDS Integers, Sequences, FiniteSets, TLC, Json

CONSTANTS KeyTab,     \* sequence of keys (naturals < 2^KeyBits)
          KeyBits,    \* key length in bits
          NV,         \* values 1..NV
          MaxBatch,   \* max operations per batch
          Depth,      \* history length
          DumpEvery   \* print about 1/DumpEvery of the complete histories (0: none)

VARIABLES m, trace
vars == <<m, trace>>

NK == Len(KeyTab)
KIdx == 1..NK

RECURSIVE Pow2(_)
Pow2(n) == IF n = 0 THEN 1 ELSE 2 * Pow2(n - 1)
Bit(i, d) == (KeyTab[i] \div Pow2(KeyBits - 1 - d)) % 2      \* bit d (0 = most significant) of key i

Present(mm) == {i \in KIdx : mm[i] # 0}

RECURSIVE TreeOf(_, _, _)
TreeOf(S, mm, d) ==
  IF S = {} THEN [t |-> "E"]
  ELSE IF Cardinality(S) = 1 THEN LET i == CHOOSE x \in S : TRUE IN [t |-> "L", k |-> KeyTab[i], v |-> mm[i]]
  ELSE [t |-> "B", l |-> TreeOf({i \in S : Bit(i, d) = 0}, mm, d + 1),
                   r |-> TreeOf({i \in S : Bit(i, d) = 1}, mm, d + 1)]
Tree(mm) == TreeOf(Present(mm), mm, 0)

\* expected answer of a membership query for key index q:
\*   kind "L": the walk ends in a leaf (key wk: q itself => inclusion, another key => non-inclusion)
\*   kind "E": the walk ends in an empty node (non-inclusion)
\*   bits: top-down, TRUE where the sibling subtree on the way is non-empty
RECURSIVE Walk(_, _, _, _, _)
Walk(S, mm, q, d, bits) ==
  IF S = {} THEN [kind |-> "E", wk |-> KeyTab[q], wv |-> 0, bits |-> bits]
  ELSE IF Cardinality(S) = 1 THEN LET i == CHOOSE x \in S : TRUE IN [kind |-> "L", wk |-> KeyTab[i], wv |-> mm[i], bits |-> bits]
  ELSE LET mine == {i \in S : Bit(i, d) = Bit(q, d)}
           sib == S \ mine
       IN Walk(mine, mm, q, d + 1, Append(bits, IF sib # {} THEN 1 ELSE 0))
Query(mm, q) == Walk(Present(mm), mm, q, 0, <<>>)

\* batches of unique keys; the EMPTY batch is a batch too (a commit with an empty diff, an event root without events)
Batches == {f \in UNION {[S -> 0..NV] : S \in {T \in SUBSET KIdx : Cardinality(T) <= MaxBatch}} : TRUE}
EmptyBatch == [i \in {} |-> 0]
Apply(mm, f) == [i \in KIdx |-> IF i \in DOMAIN f THEN f[i] ELSE mm[i]]
\* the operations of a batch in key order (the harness permutes them: batch order must not matter)
KvOf(f) == [j \in 1..Cardinality(DOMAIN f) |->
              LET i == CHOOSE x \in DOMAIN f : Cardinality({y \in DOMAIN f : y < x}) = j - 1
              IN <<KeyTab[i], f[i]>>]

Init == m = [i \in KIdx |-> 0] /\ trace = <<>>

Update(f) ==
  /\ Len(trace) < Depth
  /\ m' = Apply(m, f)
  /\ trace' = Append(trace, [op |-> "update", kv |-> KvOf(f), root |-> Tree(m'), q |-> [i \in KIdx |-> Query(m', i)]])

\* A batch that names key i twice, with two different values.  LIP-0039 and the statement of C10 leave open which of the two
\* operations wins, so the step is NONDETERMINISTIC: the new map is the one in which the first, or the one in which the second
\* wins.  The entry carries the root of the chosen branch and, as alt, the root of the other one: an implementation that takes
\* the other branch is still a behaviour of this specification (the replayer stops following THIS history there).
DupUpdate(f, i, w) ==
  /\ Len(trace) < Depth /\ i \in DOMAIN f /\ w # f[i]
  /\ \E keep \in BOOLEAN :
       LET g == [f EXCEPT ![i] = w]
           win == IF keep THEN f ELSE g
           lose == IF keep THEN g ELSE f
       IN /\ m' = Apply(m, win)
          /\ trace' = Append(trace, [op |-> "dup", kv |-> Append(KvOf(f), <<KeyTab[i], w>>), root |-> Tree(m'),
                                     q |-> [x \in KIdx |-> Query(m', x)], alt |-> Tree(Apply(m, lose))])

\* the trie is dropped and reopened from its stored nodes at its latest root
Reopen ==
  /\ Len(trace) < Depth /\ Len(trace) > 0 /\ trace[Len(trace)].op # "reopen"
  /\ trace' = Append(trace, [op |-> "reopen", kv |-> <<>>, root |-> Tree(m), q |-> [i \in KIdx |-> Query(m, i)]])
  /\ UNCHANGED m

Next == (\E f \in Batches : Update(f)) \/ Reopen
Spec == Init /\ [][Next]_vars

\* The same behaviours plus duplicate-key batches, WEIGHTED for TLC's simulator, which draws uniformly among the actions it
\* obtains by splitting the next-state relation at disjunctions and constant-bounded quantifiers: a dummy quantifier over
\* 1..n makes n copies of an action.  Without the weights one Reopen / one empty batch stand against thousands of batches
\* (one Reopen in ~3 700 steps): the steps that leave the map unchanged but exercise other code (reopen THEN continue, empty
\* batch on a populated trie, duplicate keys) would practically never be generated.
WPlain == 2
WReopen == 1500
WEmpty == 700
SmallBatches == {f \in Batches : Cardinality(DOMAIN f) \in 1..2}
NextW ==
  \/ \E c \in 1..WPlain : \E f \in Batches : Update(f)
  \/ \E c \in 1..WReopen : Reopen
  \/ \E c \in 1..WEmpty : Update(EmptyBatch)
  \/ \E f \in SmallBatches : \E i \in DOMAIN f : DupUpdate(f, i, (f[i] + 1) % (NV + 1))
SpecW == Init /\ [][NextW]_vars

(* ------------------------------ properties ------------------------------ *)
EmptyIsEmpty == (Present(m) = {}) => Tree(m) = [t |-> "E"]
\* the root recorded after every step is the canonical tree of the map at that step
RootIsFunctionOfMap == Len(trace) > 0 => trace[Len(trace)].root = Tree(m)
\* a query for a present key ends in its own leaf with its value; for an absent key it never does
QueriesAgree ==
  \A i \in KIdx : LET a == Query(m, i) IN
     IF m[i] # 0 THEN a.kind = "L" /\ a.wk = KeyTab[i] /\ a.wv = m[i]
     ELSE a.kind = "E" \/ a.wk # KeyTab[i]
\* a leaf sits at the highest position: its deepest sibling is never empty (unless it is the root)
LeafLifted == \A i \in KIdx : LET a == Query(m, i) IN Len(a.bits) > 0 => a.bits[Len(a.bits)] = 1

\* a reopen and an empty batch leave the root as it was
StutterKeepsRoot ==
  \A n \in 2..Len(trace) : (trace[n].op = "reopen" \/ trace[n].kv = <<>>) => trace[n].root = trace[n - 1].root
\* the two branches of a duplicate-key batch are different maps: the step really is a choice
DupIsAChoice == \A n \in 1..Len(trace) : trace[n].op = "dup" => trace[n].alt # trace[n].root

DumpInv ==
  (DumpEvery > 0 /\ Len(trace) = Depth /\ RandomElement(1..DumpEvery) = 1)
     => PrintT(<<"DUMP", ToJson(trace)>>)
=============================================================================
