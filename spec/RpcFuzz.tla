------------------------------ MODULE RpcFuzz ------------------------------
(***************************************************************************)
(* The surface an RPC CLIENT reaches (property C09 "... or an RPC client"):*)
(* pkg/rpc (HTTP POST /rpc and the websocket server with subscribe /       *)
(* unsubscribe), pkg/router (Invoke: endpoint name -> handler, run in its  *)
(* own goroutine; unknown namespaces go to the application's Query) and    *)
(* the handlers of pkg/engine/endpoint that the engine registers           *)
(* namespaces chain, system, network, generator.                            *)
(* A request is abstracted to (transport, envelope shape, method, shape of *)
(* params, field); every case has the same specified outcome: the node     *)
(* ANSWERS (a result or an error) within its time bound and stays alive.   *)
(* TLC enumerates the finite case space - one state per case - and prints  *)
(* it; the harness concretises every case from the real request types and  *)
(* gives it to the real servers (binding A).                               *)
(***************************************************************************)
EXTENDS Integers, Sequences, FiniteSets, TLC, Json

CONSTANT BasesFile    \* JSON written by `c09 bases`; member "methods": <<[m |-> "chain_getLastBlock", f |-> << <<"height", "num">>, ... >>], ...>>

\* The methods are READ FROM THE NODE, not listed here: `c09 bases` registers on a real router what Engine.Start registers
\* and writes the registered names (namespace_method) with the fields of the params object (<<name, kind>>, kind in num / hex /
\* addr / str / bool / obj) for the methods whose request type the harness can fill with valid values; an endpoint a developer
\* adds appears here with no fields (whole-params shapes only) until the harness learns its request type.  The last entry is
\* the application namespace (not-found handler -> labi Query).
Registered == JsonDeserialize(BasesFile).methods
\* names the router has to refuse
BadNames == << [m |-> "chain_noSuchMethod", f |-> <<>>], [m |-> "nounderscore", f |-> <<>>], [m |-> "", f |-> <<>>], [m |-> "_", f |-> <<>>],
              [m |-> "chain_", f |-> <<>>], [m |-> "_getLastBlock", f |-> <<>>], [m |-> "chain_get_Last_Block", f |-> <<>>] >>
Methods == Registered \o BadNames

Transports == {"invoke", "http", "ws"}
\* the params value as a whole
WholeShapes == {"valid", "absent", "null", "empty-object", "array", "string", "number", "bool", "extra-field", "nested-deep", "not-json", "truncated"}
\* one field of the params object
FieldShapes == {"missing", "null", "wrong-type", "empty", "huge", "negative", "object-for-scalar", "array-for-scalar"}
\* the JSON-RPC envelope (http and ws only)
EnvelopeShapes == {"ok", "no-method", "method-number", "method-null", "no-jsonrpc", "jsonrpc-1", "id-string", "id-number", "id-missing", "id-negative", "id-huge",
                   "not-json", "empty", "array-batch", "params-string"}
\* the two methods the websocket server answers itself
WsControl == {"subscribe", "unsubscribe"}
TopicShapes == {"valid", "unknown-topic", "missing", "null", "number", "empty-list", "list-of-numbers", "repeated"}

(* ---- sequences and server push (tag RQ): the state a first request leaves behind meets a second one ---- *)
\* keys <<transport, "keys", key type (plain | encrypted), KDF shape, cipher shape, follow-up>>: generator_setKeys, then the
\* follow-up request that reads what was stored.  Exactly one of the two shapes deviates (or none).
KdfShapes == {"valid", "parallelism-0", "iterations-0", "memory-0", "memory-max", "iterations-max", "salt-empty", "salt-long", "kdfparams-null",
              "kdf-unknown", "numbers-as-strings"}
CipherShapes == {"valid", "iv-empty", "iv-1", "iv-11", "iv-13", "iv-16", "tag-empty", "tag-15", "tag-17", "text-empty", "cipherparams-null",
                 "cipher-unknown", "mac-empty", "version-2"}
FollowUps == {"updateStatus-password", "updateStatus-wrong-password", "updateStatus-enable", "getAllKeys", "hasKeys", "getStatus"}
KeyCases == {<<t, "keys", "plain", "valid", "valid", fo>> : t \in Transports, fo \in FollowUps}
            \cup {<<t, "keys", "encrypted", k, "valid", fo>> : t \in Transports, k \in KdfShapes, fo \in {"updateStatus-password", "getAllKeys"}}
            \cup {<<t, "keys", "encrypted", "valid", c, fo>> : t \in Transports, c \in CipherShapes, fo \in {"updateStatus-password", "getAllKeys"}}
            \cup {<<t, "keys", "encrypted", "valid", "valid", fo>> : t \in Transports, fo \in FollowUps}
\* postblock <<transport, "postblock", shape of the JSON block, follow-up>>: chain_postBlock hands the block to the consensus
\* loop (a goroutine of the node: the router's recover() does not cover it); then the block is asked for by its id.
BlockShapes == {"valid", "no-aggregateCommit", "aggregateCommit-null", "aggregateCommit-empty", "no-signature", "no-previousBlockID",
                "no-generatorAddress", "empty-header", "header-null", "transactions-null", "transactions-null-element", "assets-null",
                "assets-null-element", "height-max", "version-0", "stale-parent"}
PostCases == {<<t, "postblock", b, "getBlockByID">> : t \in Transports, b \in BlockShapes}
\* status <<transport, "status", shape, follow-up>>: generator_setStatus then generator_getStatus / updateStatus
StatusCases == {<<t, "status", sh, fo>> : t \in Transports, sh \in {"valid", "height-max", "address-empty", "address-long"}, fo \in {"getStatus", "updateStatus-enable"}}
\* push <<"ws", "push", client (live | closed | non-reading | half-open), topics of the subscription>>: after the subscription the
\* node publishes events; Publish has a deadline, a live client receives them, clients that went away or stopped reading do not
\* hold the node back, and the server can be closed.
Clients == {"live", "closed", "non-reading", "closed-before-answer"}
PushTopics == {"valid", "repeated", "many", "prefix-of-everything"}
PushCases == {<<"ws", "push", c, tp>> : c \in Clients, tp \in PushTopics}
SeqCases == KeyCases \cup PostCases \cup StatusCases \cup PushCases

VARIABLE x
Cases ==
  {<<t, "ok", i, s, 0>> : t \in Transports, i \in 1..Len(Methods), s \in WholeShapes}
  \cup {<<t, "ok", i, s, k>> : t \in Transports, i \in {j \in 1..Len(Methods) : Len(Methods[j].f) > 0}, s \in FieldShapes, k \in 1..6}
  \cup {<<t, e, 1, "valid", 0>> : t \in {"http", "ws"}, e \in EnvelopeShapes}
  \cup {<<"ws", c, 0, s, 0>> : c \in WsControl, s \in TopicShapes}
  \* an unsubscribe after a subscribe on the same connection (the ordinary use of the pair)
  \cup {<<"ws", "subscribe-then-unsubscribe", 0, s, 0>> : s \in TopicShapes}
WellFormed(c) == c[5] = 0 \/ (c[3] >= 1 /\ c[5] <= Len(Methods[c[3]].f))

Init == x \in {c \in Cases : WellFormed(c)} \cup SeqCases
IsSeq(c) == c[2] \in {"keys", "postblock", "status", "push"}
Next == UNCHANGED x
Spec == Init /\ [][Next]_x

\* the specified outcome of every case
Outcome(c) == "answers"
Total ==
  /\ Outcome(x) = "answers"
  /\ IF IsSeq(x) THEN PrintT(<<"RQ", ToJson([tr |-> x[1], q |-> x[2], a |-> x[3], b |-> x[4], c |-> (IF Len(x) >= 5 THEN x[5] ELSE ""), d |-> (IF Len(x) >= 6 THEN x[6] ELSE "")])>>)
     ELSE PrintT(<<"RP", ToJson([tr |-> x[1], e |-> x[2], m |-> (IF x[3] = 0 THEN "" ELSE Methods[x[3]].m), s |-> x[4],
                            f |-> (IF x[5] = 0 THEN "" ELSE Methods[x[3]].f[x[5]][1]), k |-> (IF x[5] = 0 THEN "" ELSE Methods[x[3]].f[x[5]][2])])>>)
=============================================================================
