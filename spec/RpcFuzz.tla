------------------------------ MODULE RpcFuzz ------------------------------
(***************************************************************************)
(* The surface an RPC CLIENT reaches (property C09 "... or an RPC client"):*)
(* pkg/rpc (HTTP POST /rpc and the websocket server with subscribe /       *)
(* unsubscribe), pkg/router (Invoke: endpoint name -> handler, run in its  *)
(* own goroutine; unknown namespaces go to the application's Query) and    *)
(* the handlers of pkg/engine/endpoint that the engine registers           *)
(* namespaces chain, system, network, generator.                            *)
(* A request is abstracted to (transport, envelope shape, method, shape of *)
(* params, field); every case has the same specified outcome: the node     *)
(* ANSWERS (a result or an error) within its time bound and stays alive.   *)
(* TLC enumerates the finite case space - one state per case - and prints  *)
(* it; the harness concretises every case from the real request types and  *)
(* gives it to the real servers (binding A).                               *)
(***************************************************************************)
EXTENDS Integers, Sequences, FiniteSets, TLC, Json

\* fields of the params object per method: <<name, kind>>, kind in num / hex / addr / str / bool / obj
Methods == <<
  [m |-> "chain_getLastBlock", f |-> <<>>],
  [m |-> "chain_getGetBlockByID", f |-> << <<"id", "hex">> >>],
  [m |-> "chain_getBlockByHeight", f |-> << <<"height", "num">> >>],
  [m |-> "chain_getTransactionByID", f |-> << <<"id", "hex">> >>],
  [m |-> "chain_postBlock", f |-> << <<"block", "obj">> >>],
  [m |-> "system_getNodeInfo", f |-> <<>>],
  [m |-> "network_getConnectedPeers", f |-> <<>>],
  [m |-> "generator_getStatus", f |-> <<>>],
  [m |-> "generator_getAllKeys", f |-> <<>>],
  [m |-> "generator_hasKeys", f |-> << <<"address", "addr">> >>],
  [m |-> "generator_setKeys", f |-> << <<"address", "addr">>, <<"type", "str">>, <<"data", "obj">> >>],
  [m |-> "generator_setStatus", f |-> << <<"address", "addr">>, <<"height", "num">>, <<"maxHeightPreviouslyForged", "num">>, <<"maxHeightPrevoted", "num">> >>],
  [m |-> "generator_updateStatus", f |-> << <<"generatorAddress", "addr">>, <<"password", "str">>, <<"enable", "bool">>, <<"height", "num">>,
                                           <<"maxHeightGenerated", "num">>, <<"maxHeightPrevoted", "num">> >>],
  [m |-> "generator_estimateSafeStatus", f |-> << <<"timeShutdown", "num">> >>],
  \* not an engine namespace: handed to the application (labi Query)
  [m |-> "token_getBalance", f |-> << <<"address", "addr">> >>],
  \* names the router has to refuse
  [m |-> "chain_noSuchMethod", f |-> <<>>], [m |-> "nounderscore", f |-> <<>>], [m |-> "", f |-> <<>>], [m |-> "_", f |-> <<>>],
  [m |-> "chain_", f |-> <<>>], [m |-> "_getLastBlock", f |-> <<>>], [m |-> "chain_get_Last_Block", f |-> <<>>]
>>

Transports == {"invoke", "http", "ws"}
\* the params value as a whole
WholeShapes == {"valid", "absent", "null", "empty-object", "array", "string", "number", "bool", "extra-field", "nested-deep", "not-json", "truncated"}
\* one field of the params object
FieldShapes == {"missing", "null", "wrong-type", "empty", "huge", "negative", "object-for-scalar", "array-for-scalar"}
\* the JSON-RPC envelope (http and ws only)
EnvelopeShapes == {"ok", "no-method", "method-number", "method-null", "no-jsonrpc", "jsonrpc-1", "id-string", "id-number", "id-missing", "id-negative", "id-huge",
                   "not-json", "empty", "array-batch", "params-string"}
\* the two methods the websocket server answers itself
WsControl == {"subscribe", "unsubscribe"}
TopicShapes == {"valid", "unknown-topic", "missing", "null", "number", "empty-list", "list-of-numbers", "repeated"}

VARIABLE x
Cases ==
  {<<t, "ok", i, s, 0>> : t \in Transports, i \in 1..Len(Methods), s \in WholeShapes}
  \cup {<<t, "ok", i, s, k>> : t \in Transports, i \in {j \in 1..Len(Methods) : Len(Methods[j].f) > 0}, s \in FieldShapes, k \in 1..6}
  \cup {<<t, e, 1, "valid", 0>> : t \in {"http", "ws"}, e \in EnvelopeShapes}
  \cup {<<"ws", c, 0, s, 0>> : c \in WsControl, s \in TopicShapes}
  \* an unsubscribe after a subscribe on the same connection (the ordinary use of the pair)
  \cup {<<"ws", "subscribe-then-unsubscribe", 0, s, 0>> : s \in TopicShapes}
WellFormed(c) == c[5] = 0 \/ (c[3] >= 1 /\ c[5] <= Len(Methods[c[3]].f))

Init == x \in {c \in Cases : WellFormed(c)}
Next == UNCHANGED x
Spec == Init /\ [][Next]_x

\* the specified outcome of every case
Outcome(c) == "answers"
Total ==
  /\ Outcome(x) = "answers"
  /\ PrintT(<<"RP", ToJson([tr |-> x[1], e |-> x[2], m |-> (IF x[3] = 0 THEN "" ELSE Methods[x[3]].m), s |-> x[4],
                            f |-> (IF x[5] = 0 THEN "" ELSE Methods[x[3]].f[x[5]][1]), k |-> (IF x[5] = 0 THEN "" ELSE Methods[x[3]].f[x[5]][2])])>>)
=============================================================================
