----------------------------- MODULE MCGenerator -----------------------------
EXTENDS Generator
\* validator 1 (weight 1) is the generator under test; 2 and 3 (weight 3 each) reach the prevote threshold 5 of 7
\* on their own, so a chain built by them has a higher maxHeightPrevoted than a longer chain built by 1 alone
W133 == <<1, 3, 3>>
G123g == <<1, 2, 3>>
\* two generators under test (1 and 2), validator 3 carries the weight
W115 == <<1, 1, 5>>
Own1 == {1}
Own12 == {1, 2}
NoChoices == <<>>
\* validator-set changes (G2): other weights and a PERMUTED generator list that keeps the generators under test.
\* ChoiceA (with W133 / Own1): 2 and 3 still reach the threshold 5 of 7 together; 1 moves from position 1 to position 2.
ChoiceA == << [pcT |-> 5, certT |-> 5, w |-> <<1, 2, 4>>, gens |-> <<3, 1, 2>>] >>
\* ChoiceB (with W115 / Own12): the two generators under test swap their positions (a generator that looks its slot up
\* in the list of the wrong height generates with the OTHER key it holds)
ChoiceB == << [pcT |-> 5, certT |-> 5, w |-> <<1, 2, 5>>, gens |-> <<2, 1, 3>>] >>
Out4 == {"ok", "vf", "vp", "xf"}
Out7 == {"ok", "vf", "vp", "xf", "xe", "ve", "xr"}
NoMutations == {}
NoGiven == <<>>
GView == <<chain, vstack, fin, ginfo, signed, lost, ever, abandoned, NCrash, NSwitch, NRestarts, Len(script)>>
=============================================================================
