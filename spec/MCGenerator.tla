----------------------------- MODULE MCGenerator -----------------------------
EXTENDS Generator
\* validator 1 (weight 1) is the generator under test; 2 and 3 (weight 3 each) reach the prevote threshold 5 of 7
\* on their own, so a chain built by them has a higher maxHeightPrevoted than a longer chain built by 1 alone
W133 == <<1, 3, 3>>
G123g == <<1, 2, 3>>
\* two generators under test (1 and 2), validator 3 carries the weight
W115 == <<1, 1, 5>>
Own1 == {1}
Own12 == {1, 2}
NoChoices == <<>>
NoMutations == {}
NoGiven == <<>>
GView == <<chain, vstack, fin, ginfo, signed, lost, ever, abandoned, NCrash, NSwitch, NRestarts, Len(script)>>
=============================================================================
