------------------------------ MODULE SyncTrace ------------------------------
(***************************************************************************)
(* Monitor for recorded sync scenarios and handler calls on real nodes     *)
(* (C19, C04).  Lines:                                                     *)
(*  [ev: "common", chain, ids, res]  getHighestCommonBlock on a real node  *)
(*       ids >= 9000: ids the responder does not have / malformed ids;     *)
(*       res: 0 = no block, -1 = an id that is not on the chain,           *)
(*            -2 = the request was refused (error, no answer)              *)
(*  [ev: "blocks", chain, id, res]   getBlocksFromId (res = <<>> also when *)
(*       the request was refused)                                          *)
(*  [ev: "last", chain, res]         getLastBlock                          *)
(*  [ev: "offer", f: features, outcome, finBefore, finAfter, finalIdsSame, *)
(*       temp, finEvents, mhpcAfter, ext]                                  *)
(*  [ev: "offer2", peers, tip, banned, noBan]  several honest peers, the   *)
(*       block that starts the block synchronisation comes from one of     *)
(*       them                                                              *)
(***************************************************************************)
EXTENDS Sync

CONSTANT TraceFile
TraceLog == ndJsonDeserialize(TraceFile)
VARIABLE l
Ev == TraceLog[l]
ToSet(s) == {s[i] : i \in 1..Len(s)}
Check(ok, tag, detail) == IF ok THEN TRUE ELSE PrintT(<<"MISMATCH", l, tag, detail>>)
Cap == 103
Settled == {"own", "own+ban", "peer"}
TInit == l = 1 /\ x = <<>>
TNext ==
  /\ l <= Len(TraceLog)
  /\ CASE Ev.ev = "common" ->
            \* ids the responder cannot share (unknown, malformed) never contribute; a request that contains malformed ids
            \* may also be refused as a whole
            LET exp == HighestCommon(Ev.chain, ToSet(Ev.ids)) IN
            Check(Ev.res = exp \/ (Ev.mal = 1 /\ Ev.res \in {0, -2}), "highest-common", ToJson(exp))
       [] Ev.ev = "blocks" -> Check(BlocksFromOk(Ev.chain, Ev.id, Cap, Ev.res), "blocks-from-id",
                                    IF OnChain(Ev.chain, Ev.id) THEN ToJson(BlocksFrom(Ev.chain, Ev.id, Cap)) ELSE "no block")
       [] Ev.ev = "last" -> Check(Ev.res = Ev.chain[Len(Ev.chain)], "last-block", ToJson(Ev.chain[Len(Ev.chain)]))
       [] Ev.ev = "offer" ->
            LET ff == [a |-> Ev.f.a, b |-> Ev.f.b, common |-> Ev.f.common, fin |-> Ev.f.fin, n |-> Ev.f.n,
                       genKnown |-> Ev.f.genKnown = 1, slotGap |-> Ev.f.slotGap, behaviour |-> Ev.f.behaviour,
                       child |-> Ev.f.child = 1]
                \* everything but a block synchronisation with a faulty peer
                clean == ~(BlockSyncPath(ff) /\ ff.behaviour # "honest")
            IN
            \* valid blocks of the peer that were applied before a later one failed may have become final: they stay
            /\ Check(Ev.outcome \in (IF Ev.finAfter > Ev.f.common /\ Ev.f.behaviour # "honest" THEN {"partial", "partial+ban"} ELSE {}) \cup Outcomes(ff), "sync-outcome", Ev.outcome)
            \* ends ON a chain: nothing of the attempt is left behind, the node goes on from there (it accepts the next
            \* block of its own, a node that always had exactly these blocks accepts that block too), and after a
            \* restoration it is the node it was (same database as a twin that was never offered anything, compared
            \* when the finalized height did not move)
            /\ Check(Ev.outcome \in Settled /\ clean => Ev.temp = <<>>, "temp-blocks-left", ToJson(Ev.temp))
            /\ Check(Ev.ext.extended # 0, "cannot-extend", Ev.outcome)
            /\ Check(Ev.ext.twin # 0, "twin-rejects", Ev.outcome)
            /\ Check(clean => Ev.ext.dump # 0, "restore-differs", Ev.outcome)
            \* C04
            /\ Check(Ev.finAfter >= Ev.finBefore, "finalized-height-decreased", ToJson(<<Ev.finBefore, Ev.finAfter>>))
            /\ Check(Ev.finalIdsSame = 1, "finalized-block-replaced", "ids")
            /\ Check(FinalizeChainOk(Ev.finEvents, Ev.finBefore, Ev.finAfter), "finalize-events", ToJson(<<Ev.finBefore, Ev.finAfter>>))
            /\ Check(Ev.finAfter >= Ev.mhpcAfter, "finalized-behind-precommit", ToJson(<<Ev.finAfter, Ev.mhpcAfter>>))
       \* several honest peers, all far ahead (block synchronisation): the node fetches from a peer the selection rule
       \* allows and ends on that peer's chain; peers: the tips of the peers that answer getLastBlock, tip: the id label
       \* of the chain the node ended on
       [] Ev.ev = "offer2" ->
            /\ Check(Ev.tip \in {Ev.peers[i].id : i \in BestPeers(Ev.peers)}, "sync-outcome-two-peers", ToJson({Ev.peers[i].id : i \in BestPeers(Ev.peers)}))
            /\ Check(Ev.noBan = 1 => Ev.banned = 0, "honest-peer-banned", ToJson(Ev.banned))
  /\ l' = l + 1 /\ UNCHANGED x
TSpec == TInit /\ [][TNext]_<<l, x>>
=============================================================================
