------------------------------ MODULE SyncTrace ------------------------------
(***************************************************************************)
(* Monitor for recorded sync scenarios and handler calls on real nodes     *)
(* (C19, C04).  Lines:                                                     *)
(*  [ev: "common", chain, ids, res]  getHighestCommonBlock on a real node  *)
(*  [ev: "blocks", chain, id, res]   getBlocksFromId                       *)
(*  [ev: "offer", f: features, outcome, finBefore, finAfter, finalIdsSame] *)
(*  [ev: "offer2", outcome]  two honest peers, best chain on the other one *)
(***************************************************************************)
EXTENDS Sync, Json

CONSTANT TraceFile
TraceLog == ndJsonDeserialize(TraceFile)
VARIABLE l
Ev == TraceLog[l]
ToSet(s) == {s[i] : i \in 1..Len(s)}
Check(ok, tag, detail) == IF ok THEN TRUE ELSE PrintT(<<"MISMATCH", l, tag, detail>>)
TInit == l = 1 /\ x = <<>>
TNext ==
  /\ l <= Len(TraceLog)
  /\ CASE Ev.ev = "common" -> Check(Ev.res = HighestCommon(Ev.chain, ToSet(Ev.ids)), "highest-common", ToJson(HighestCommon(Ev.chain, ToSet(Ev.ids))))
       [] Ev.ev = "blocks" -> Check(Ev.res = BlocksFrom(Ev.chain, Ev.id, 103), "blocks-from-id", ToJson(BlocksFrom(Ev.chain, Ev.id, 103)))
       [] Ev.ev = "offer" ->
            \* valid blocks of the peer that were applied before a later one failed may have become final: they stay
            /\ Check(Ev.outcome \in (IF Ev.finAfter > Ev.f.common /\ Ev.f.behaviour # "honest" THEN {"partial", "partial+ban"} ELSE {}) \cup Outcomes([a |-> Ev.f.a, b |-> Ev.f.b, common |-> Ev.f.common, fin |-> Ev.f.fin, n |-> Ev.f.n,
                                             genKnown |-> Ev.f.genKnown = 1, slotGap |-> Ev.f.slotGap, behaviour |-> Ev.f.behaviour,
                                             child |-> Ev.f.child = 1]), "sync-outcome", Ev.outcome)
            /\ Check(Ev.finAfter >= Ev.finBefore, "finalized-height-decreased", ToJson(<<Ev.finBefore, Ev.finAfter>>))
            /\ Check(Ev.finalIdsSame = 1, "finalized-block-replaced", "ids")
       \* two honest peers, the better chain on the one that did NOT send the triggering block: the node fetches from the
       \* peer it selected as best and ends on that chain
       [] Ev.ev = "offer2" -> Check(Ev.outcome = "best", "sync-outcome-two-peers", Ev.outcome)
  /\ l' = l + 1 /\ UNCHANGED x
TSpec == TInit /\ [][TNext]_<<l, x>>
=============================================================================
