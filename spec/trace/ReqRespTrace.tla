---------------------------- MODULE ReqRespTrace ----------------------------
(***************************************************************************)
(* Trace validation of the real pkg/p2p request/response layer against     *)
(* ReqResp (C17).  The ndjson log is written by harness/cmd/c17 from the   *)
(* five schedule points of message_protocol.go plus the harness' own       *)
(* call/return events:                                                     *)
(*   Reset(n,k,tmo)        new segment: n calls, retry budget k, configured *)
(*                         response timeout tmo (microseconds)             *)
(*   Sent(c,k)             req.afterSend     (logged after mp.send returned)*)
(*   Registered(c,k)       req.registered    (logged under resMu)          *)
(*   TimerFired(c,k)       req.timerFired                                  *)
(*   Locked(c,k,d)         res.locked        (d-th response for that id)   *)
(*   Found(c,k,d)          res.beforeDeliver (entry found, about to send)  *)
(*   Miss(c,k,d)           lookup found no entry                           *)
(*   Responded(c,k)        the REMOTE handler returned for the request of   *)
(*                         attempt k (logged by the harness' handler on the *)
(*                         answering host): its reply is now in the hands   *)
(*                         of the layer (respond -> network -> onResponse)  *)
(*   Returned(c,k,res,corr,dl) RequestFrom returned resp|timeout|cancel|error; *)
(*                         dl = 1: the caller's ctx carried a deadline      *)
(*   Quiesce(n,pending)    all calls returned; pending = VerifPending()    *)
(* Steps of the specification that have no schedule point are silent:      *)
(*   - Recv, ResDone, BufSend, Unreg may happen at any time (the log prunes *)
(*     the alternatives: Returned needs the call unregistered and the       *)
(*     delivering onResponse finished);                                     *)
(*   - Send, Dup, Arrive, Cancel, SendFail commute to the left of every     *)
(*     logged event that does not need them, so they are taken lazily,      *)
(*     right before the logged event that needs them.                       *)
(* A line is one or more TLC steps; the largest consumed line index is kept *)
(* in TLC register 1 and printed by the POSTCONDITION.  The safety          *)
(* properties are monitored in every reached state: <<"INV", name, line>>.  *)
(* Two properties need what only the log knows:                             *)
(*   NoVanishedReply  at Quiesce no reply of a Responded request is still   *)
(*                    in flight (every one reached the lookup, res.locked)  *)
(*   TimerNotEarly    "not lost when it arrives before the deadline": the   *)
(*                    timer of an attempt fires no earlier than the         *)
(*                    configured timeout after the attempt's first event    *)
(*                    (10 % tolerance for a timer created a moment before   *)
(*                    the first schedule point)                             *)
(***************************************************************************)
EXTENDS ReqResp, Json, Sequences

CONSTANTS TraceFile,
          FreeTail      \* TRUE: after the last line explore every continuation of the specification
                    \* (used for traces that end with blocked goroutines: is the end state doomed?)
TraceLog == ndJsonDeserialize(TraceFile)

MaxOf(S) == IF S = {} THEN 0 ELSE CHOOSE x \in S : \A y \in S : y <= x
TraceCalls == 1..MaxOf({TraceLog[i].n : i \in 1..Len(TraceLog)})
TraceMaxRetry == MaxOf({TraceLog[i].k : i \in 1..Len(TraceLog)})
TraceMaxDup == MaxOf({TraceLog[i].d : i \in 1..Len(TraceLog)})
TraceDupBudget == Len(TraceLog)
TraceTmo == TraceLog[1].tmo
TraceNoCalls == {}
TraceDeadlineCalls == {TraceLog[i].c : i \in {j \in 1..Len(TraceLog) : TraceLog[j].ev = "Returned" /\ TraceLog[j].dl = 1}}

VARIABLES l,       \* index of the next line to consume
          early,   \* ids whose Send was taken before its Sent line (the response outran the log)
          handled, \* ids whose remote handler returned (Responded lines)
          tw       \* per id: time of the first logged event of the attempt (-1: none yet)
tvars == <<l, early, handled, tw, vars>>
aux == <<handled, tw>>

Ev == TraceLog[l]
C == Ev.c
K == Ev.k
Id == <<Ev.c, Ev.k>>
R == <<Ev.c, Ev.k, Ev.d>>
R0 == <<Ev.c, Ev.k, 0>>
Monitor(name, ok) == IF ok THEN TRUE ELSE PrintT(<<"INV", name, l>>)
Stamp == tw' = IF tw[Id] < 0 THEN [tw EXCEPT ![Id] = Ev.t] ELSE tw

Consume == l' = l + 1
Stay == l' = l

TInit == l = 1 /\ early = {} /\ handled = {} /\ tw = [i \in Ids |-> -1] /\ Init /\ TLCSet(1, 1)

TReset ==
  /\ Ev.ev = "Reset"
  /\ pc' = [c \in Calls |-> "start"] /\ att' = [c \in Calls |-> 0]
  /\ reg' = {} /\ lock' = NoId /\ net' = {} /\ chanBuf' = {}
  /\ rpc' = [r \in Resps |-> "idle"]
  /\ result' = [c \in Calls |-> "none"] /\ got' = [c \in Calls |-> NoId] /\ dups' = 0
  /\ early' = {} /\ handled' = {} /\ tw' = [i \in Ids |-> -1] /\ Consume

TSent ==
  /\ Ev.ev = "Sent" /\ att[C] = K
  /\ IF Id \in early
     THEN early' = early \ {Id} /\ UNCHANGED vars
     ELSE Send(C) /\ UNCHANGED early
  /\ Stamp /\ UNCHANGED handled /\ Consume

TRegistered == Ev.ev = "Registered" /\ att[C] = K /\ Register(C) /\ Stamp /\ UNCHANGED <<early, handled>> /\ Consume
TTimer ==
  /\ Ev.ev = "TimerFired" /\ att[C] = K /\ Timeout(C)
  /\ Monitor("TimerNotEarly", tw[Id] < 0 \/ 10 * (Ev.t - tw[Id]) >= 9 * TraceTmo)
  /\ UNCHANGED <<early, aux>> /\ Consume
TLocked == Ev.ev = "Locked" /\ ResLock(R) /\ UNCHANGED <<early, aux>> /\ Consume
TFound == Ev.ev = "Found" /\ Found(R) /\ UNCHANGED <<early, aux>> /\ Consume
TMiss == Ev.ev = "Miss" /\ Missed(R) /\ UNCHANGED <<early, aux>> /\ Consume

\* the remote handler answered a request: that request was sent (possibly before its Sent line was logged)
TResponded ==
  /\ Ev.ev = "Responded"
  /\ R0 \in net \/ rpc[R0] # "idle"
  /\ handled' = handled \cup {Id}
  /\ UNCHANGED <<vars, early, tw>> /\ Consume

TReturned ==
  /\ Ev.ev = "Returned"
  /\ pc[C] = "done" /\ result[C] = Ev.res
  /\ Ev.res # "error" => att[C] = K
  /\ Ev.res = "resp" => /\ Ev.corr = 1 /\ got[C] = Id
                        /\ \A d \in 0..MaxDup : rpc[<<C, K, d>>] # "sent"
  /\ UNCHANGED <<vars, early, aux>> /\ Consume

TQuiesce ==
  /\ Ev.ev = "Quiesce"
  /\ \A c \in 1..Ev.n : pc[c] = "done"
  /\ Cardinality(reg) = Ev.pending
  /\ Monitor("NoVanishedReply", Vanished(handled) = {})
  /\ UNCHANGED <<vars, early, aux>> /\ Consume

\* lazy silent steps, enabled only when the next line needs them
SEarlySend ==
  /\ (Ev.ev = "Locked" /\ Ev.d = 0) \/ Ev.ev = "Responded"
  /\ att[C] = K /\ Id \notin early
  /\ rpc[R0] = "idle" /\ R0 \notin net
  /\ Send(C) /\ early' = early \cup {Id} /\ UNCHANGED aux /\ Stay
SDup == Ev.ev = "Locked" /\ Ev.d > 0 /\ Dup(R) /\ UNCHANGED <<early, aux>> /\ Stay
SArrive == Ev.ev = "Locked" /\ Arrive(R) /\ UNCHANGED <<early, aux>> /\ Stay
SCancel == Ev.ev = "Returned" /\ Ev.res = "cancel" /\ att[C] = K /\ Cancel(C) /\ UNCHANGED <<early, aux>> /\ Stay
SFail == Ev.ev = "Returned" /\ Ev.res = "error" /\ SendFail(C) /\ UNCHANGED <<early, aux>> /\ Stay
\* SendUnderLock shape: the failing send releases resMu a moment before the call's Returned line is logged
SFailEarly ==
  /\ SendUnderLock
  /\ \E c \in Calls : /\ lock = ReqTok(c)
                       /\ \E i \in l..Len(TraceLog) : TraceLog[i].ev = "Returned" /\ TraceLog[i].c = c /\ TraceLog[i].res = "error"
                       /\ SendFail(c)
  /\ UNCHANGED <<early, aux>> /\ Stay

\* silent steps without a schedule point
SRecv == \E c \in Calls : Recv(c) /\ UNCHANGED <<early, aux>> /\ Stay
SUnreg == \E c \in Calls : Unreg(c) /\ UNCHANGED <<early, aux>> /\ Stay
SResDone == \E r \in Resps : ResDone(r) /\ UNCHANGED <<early, aux>> /\ Stay
SBufSend == \E r \in Resps : BufSend(r) /\ UNCHANGED <<early, aux>> /\ Stay

TTail == FreeTail /\ l > Len(TraceLog) /\ Next /\ UNCHANGED <<l, early, aux>>

TStep ==
  /\ l <= Len(TraceLog)
  /\ \/ TReset \/ TSent \/ TRegistered \/ TTimer \/ TLocked \/ TFound \/ TMiss \/ TResponded \/ TReturned \/ TQuiesce
     \/ SEarlySend \/ SDup \/ SArrive \/ SCancel \/ SFail \/ SFailEarly
     \/ SRecv \/ SUnreg \/ SResDone \/ SBufSend
  /\ IF l' > TLCGet(1) THEN TLCSet(1, l') ELSE TRUE
  /\ Monitor("NoLostReply", NoLostReply' \/ ~NoLostReply)     \* reported when it becomes false
  /\ Monitor("Correlated", Correlated' \/ ~Correlated)
  /\ Monitor("NoLeak", NoLeak' \/ ~NoLeak)
  /\ Monitor("ResultSane", ResultSane' \/ ~ResultSane)

TNext == TStep \/ TTail
TSpec == TInit /\ [][TNext]_tvars

\* lines consumed = TLCGet(1) - 1
Report == PrintT(<<"ACCEPTED", TLCGet(1) - 1, Len(TraceLog)>>)
=============================================================================
