---------------------------- MODULE LiskBFTTrace ----------------------------
(***************************************************************************)
(* TraceLog validation of the real liskbft.Module against LiskBFT (C02, C07). *)
(* Every line of the ndjson trace is one call on the real module together  *)
(* with the projected BFT store observed after it.  All steps are          *)
(* deterministic in the specification, so the logged state must EQUAL the  *)
(* state computed by the spec operators; the first differing line stops    *)
(* the trace (reported through the TLCSet register 1 = lines accepted).    *)
(***************************************************************************)
EXTENDS LiskBFT, Json

CONSTANT TraceFile, ObsBlocking
TraceLog == ndJsonDeserialize(TraceFile)

VARIABLES l, votes, rr
tvars == <<l, votes, rr>>

ToSeqN(f, n) == [i \in 1..n |-> f[i]]

Project(v) ==
  [mhpv |-> v.mhpv, mhpc |-> v.mhpc, cert |-> v.cert,
   win |-> [i \in 1..Len(v.infos) |-> <<v.infos[i].h, v.infos[i].gen, v.infos[i].mhg, v.infos[i].mhp, v.infos[i].pv, v.infos[i].pc>>],
   vinfo |-> [x \in Validators |-> <<IF v.vinfo[x].active THEN 1 ELSE 0, v.vinfo[x].minActive, v.vinfo[x].lhp>>],
   pkeys |-> [i \in 1..Len(v.params) |-> v.params[i].from],
   gkeys |-> [i \in 1..Len(v.gkeys) |-> v.gkeys[i].from]]

ObsOf(o) == [mhpv |-> o.mhpv, mhpc |-> o.mhpc, cert |-> o.cert, win |-> o.win, vinfo |-> o.vinfo,
             pkeys |-> o.pkeys, gkeys |-> o.gkeys]

\* probes of API.GetBFTParameters(h) / NextHeightBFTParameters(h): <<h, found, pvT, pcT, certT>> / <<h, res>>
ProbeOK(v, o) ==
  /\ \A i \in 1..Len(o.pAt) :
       LET p == o.pAt[i] IN
       IF HasParamsAt(v.params, p[1])
       THEN LET e == ParamsAt(v.params, p[1]) IN p = <<p[1], 1, e.pvT, e.pcT, e.certT>>
       ELSE p[2] = 0
  /\ \A i \in 1..Len(o.nextP) : o.nextP[i][2] = NextParamsHeight(v.params, o.nextP[i][1])

Matches(v, o) == Project(v) = ObsOf(o) /\ ProbeOK(v, o)

Explain(v, o) == PrintT(<<"MISMATCH", l, ToJson(Project(v))>>)
\* ObsBlocking (default): the first deviation of the state ends the validation (everything after it would be noise).
\* C07 validates the contradiction probes and lets the monitor go on with the MODEL's state past deviations of the observed
\* state (the same headers were accepted on both sides, so the answers stay comparable); a header accepted by one side
\* only still ends the validation.
Blk(p) == IF ObsBlocking THEN ~p ELSE p

Ev == TraceLog[l]

TInit == /\ l = 1
         /\ votes = GenesisVotes(0, 3)
         /\ rr = [on |-> FALSE, q |-> 0, first |-> 0]

TReset ==
  /\ Ev.ev = "Init"
  /\ votes' = GenesisVotes(Ev.h0, Ev.win)
  /\ rr' = [on |-> Ev.rr = 1, q |-> Ev.q, first |-> Ev.h0 + 1]
  /\ IF Matches(votes', Ev.obs) THEN TRUE ELSE Blk(Explain(votes', Ev.obs))

TSetParams ==
  /\ Ev.ev = "SetParams"
  /\ LET w == ToSeqN(Ev.w, NVal)
         valid == ValidParams(Ev.pcT, Ev.certT, w, votes.win \div 3)
         v1 == IF valid THEN SetGenKeys(SetParams(votes, Ev.pcT, Ev.certT, w), Ev.gens) ELSE votes
     IN /\ votes' = v1
        /\ IF (Ev.err = 1) = ~valid THEN TRUE ELSE ~PrintT(<<"MISMATCH-ERR", l, valid>>)
        /\ IF Matches(v1, Ev.obs) THEN TRUE ELSE Blk(Explain(v1, Ev.obs))
  /\ UNCHANGED rr

TContra ==     \* API.IsHeaderContradictingChain probe, no state change (C07)
  /\ Ev.ev = "Contra"
  /\ LET hdr == [h |-> Ev.h, gen |-> Ev.gen, mhg |-> Ev.mhg, mhp |-> Ev.mhp] IN
     IF (Ev.res = 1) = ContraChain(votes, hdr) THEN TRUE ELSE Blk(PrintT(<<"MISMATCH-CONTRA", l, ContraChain(votes, hdr)>>))
  /\ UNCHANGED <<votes, rr>>

THeader ==
  /\ Ev.ev = "Header"
  /\ LET hdr == [h |-> Ev.h, gen |-> Ev.gen, mhg |-> Ev.mhg, mhp |-> Ev.mhp, acH |-> Ev.acH, acNonEmpty |-> Ev.acNonEmpty = 1]
         def == ApplyDefined(votes, hdr)
         v1 == IF def THEN Apply(votes, hdr) ELSE votes
     IN /\ votes' = v1
        /\ IF (Ev.err = 1) = ~def THEN TRUE ELSE ~PrintT(<<"MISMATCH-ERR", l, def>>)
        /\ IF Matches(v1, Ev.obs) THEN TRUE ELSE Blk(Explain(v1, Ev.obs))
        /\ IF ~def \/ (Ev.implies = 1) = ImpliesMaxPrevotes(v1, hdr) THEN TRUE ELSE ~PrintT(<<"MISMATCH-IMPLIES", l>>)
  /\ UNCHANGED rr

TNext == /\ l <= Len(TraceLog)
         /\ (TReset \/ TSetParams \/ TContra \/ THeader)
         /\ l' = l + 1
         /\ TLCSet(1, l)

TSpec == TInit /\ [][TNext]_tvars

(* ---- properties evaluated in every state of every validated trace ---- *)
\* heights are ordered and bounded by the tip
HeightsSane == votes.mhpc <= votes.mhpv /\ (Len(votes.infos) > 0 => votes.mhpv <= votes.infos[1].h)
\* C02: in a fault-free round-robin run every block is final within two quorums of blocks
RoundRobinFinal ==
  (rr.on /\ Len(votes.infos) > 0 /\ votes.infos[1].h - 2 * rr.q + 1 >= rr.first)
     => votes.mhpc >= votes.infos[1].h - 2 * rr.q + 1
\* monotone along a chain (action property)
Monotone == [][Ev.ev # "Init" => (votes'.mhpv >= votes.mhpv /\ votes'.mhpc >= votes.mhpc)]_tvars

Accepted == TLCGet(1) = Len(TraceLog)
=============================================================================
