---------------------------- MODULE LiskBFTTrace ----------------------------
(***************************************************************************)
(* TraceLog validation of the real liskbft.Module against LiskBFT (C02, C07). *)
(* Every line of the ndjson trace is one call on the real module together  *)
(* with the projected BFT store observed after it.  All steps are          *)
(* deterministic in the specification, so the logged state must EQUAL the  *)
(* state computed by the spec operators; the first differing line stops    *)
(* the trace (reported through the TLCSet register 1 = lines accepted).    *)
(*                                                                         *)
(* What an observation carries (harness/cmd/c02):                          *)
(*   mhpv/mhpc/cert, win, vinfo   the decoded votes store                  *)
(*   api                          API.GetBFTHeights                        *)
(*   pkeys/gkeys                  keys of the two parameter stores         *)
(*   pAt/pW/pHash, nextP          GetBFTParameters(h) (thresholds, weights *)
(*                                by identity, validatorsHash recomputed   *)
(*                                by a hand-written encoder) and           *)
(*                                NextHeightBFTParameters(h)               *)
(*   gAt, lAt                     GetGeneratorKeys(h), GetLabiValidators   *)
(* "Peer" lines are observations of OTHER real nodes fed the same chain    *)
(* (shadow: other list order, never flushed; twin: all heights shifted by  *)
(* S, all weights multiplied by K, mapped back by the recorder): the same  *)
(* model state must explain them.                                          *)
(*                                                                         *)
(* No stricter than the property: parameters below                         *)
(*   MinReq = min(oldest window height, certified + 1)                     *)
(* are never needed again (LIP-0058), so keys <= MinReq and answers for    *)
(* heights < MinReq are not compared: pruning may be eager or lazy.        *)
(***************************************************************************)
EXTENDS LiskBFT, Json

CONSTANT TraceFile, ObsBlocking
TraceLog == ndJsonDeserialize(TraceFile)

VARIABLES l, votes, rr
tvars == <<l, votes, rr>>

ToSeqN(f, n) == [i \in 1..n |-> f[i]]

MinReq(v) == IF Len(v.infos) = 0 THEN v.cert + 1 ELSE Min2(v.infos[Len(v.infos)].h, v.cert + 1)
KeysAbove(ks, m) == SelectSeq(ks, LAMBDA k : k > m)

Project(v) ==
  [mhpv |-> v.mhpv, mhpc |-> v.mhpc, cert |-> v.cert,
   win |-> [i \in 1..Len(v.infos) |-> <<v.infos[i].h, v.infos[i].gen, v.infos[i].mhg, v.infos[i].mhp, v.infos[i].pv, v.infos[i].pc>>],
   vinfo |-> [x \in Validators |-> <<IF v.vinfo[x].active THEN 1 ELSE 0, v.vinfo[x].minActive, v.vinfo[x].lhp>>],
   pkeys |-> KeysAbove([i \in 1..Len(v.params) |-> v.params[i].from], MinReq(v)),
   gkeys |-> KeysAbove([i \in 1..Len(v.gkeys) |-> v.gkeys[i].from], MinReq(v))]

ObsOf(v, o) == [mhpv |-> o.mhpv, mhpc |-> o.mhpc, cert |-> o.cert, win |-> o.win, vinfo |-> o.vinfo,
                pkeys |-> KeysAbove(o.pkeys, MinReq(v)), gkeys |-> KeysAbove(o.gkeys, MinReq(v))]

Relevant(v, h) == h >= MinReq(v)

\* probes of API.GetBFTParameters(h) / NextHeightBFTParameters(h): <<h, found, pvT, pcT, certT>> + weights by identity / <<h, res>>
ProbeOK(v, o) ==
  /\ \A i \in 1..Len(o.pAt) :
       LET p == o.pAt[i] IN
       Relevant(v, p[1]) =>
         IF HasParamsAt(v.params, p[1])
         THEN LET e == ParamsAt(v.params, p[1]) IN p = <<p[1], 1, e.pvT, e.pcT, e.certT>> /\ o.pW[i] = e.w
         ELSE p[2] = 0
  /\ \A i \in 1..Len(o.nextP) :
       Relevant(v, o.nextP[i][1]) => o.nextP[i][2] = NextParamsHeight(v.params, o.nextP[i][1])

\* what the probes should have answered (diagnostics only)
ExpectProbes(v, o) ==
  [i \in 1..Len(o.pAt) |->
     LET h == o.pAt[i][1] IN
     IF ~Relevant(v, h) THEN <<h, "any">>
     ELSE IF HasParamsAt(v.params, h)
          THEN LET e == ParamsAt(v.params, h) IN <<h, 1, e.pvT, e.pcT, e.certT, e.w, NextParamsHeight(v.params, h)>>
          ELSE <<h, 0, NextParamsHeight(v.params, h)>>]

\* the validators hash stored with the parameters is the hash of (weights by BLS key, certificate threshold); the weights and
\* the threshold are compared above, the hash of exactly those values is recomputed by the recorder (hashes are not modelled)
HashOK(v, o) ==
  \A i \in 1..Len(o.pAt) : (Relevant(v, o.pAt[i][1]) /\ o.pAt[i][2] = 1) => o.pHash[i] = 1

IdsOf(g) == {g[j] : j \in 2..Len(g)}
GensAt(v, h) == LET gs == ParamsAt(v.gkeys, h).gens IN {gs[j] : j \in 1..Len(gs)}
\* API.GetGeneratorKeys(h) = the list set for the largest key <= h (compared as a set of identities: the order of the round is
\* the application's business); GetLabiValidators joins it with the weights in force at h
GenOK(v, o) ==
  \A i \in 1..Len(o.gAt) :
    LET h == o.pAt[i][1]  g == o.gAt[i] IN
    Relevant(v, h) =>
      IF HasParamsAt(v.gkeys, h)
      THEN /\ g[1] = 1
           /\ IdsOf(g) = GensAt(v, h)
           /\ HasParamsAt(v.params, h) =>
                LET la == o.lAt[i]  e == ParamsAt(v.params, h) IN
                /\ {la[j][1] : j \in 1..Len(la)} = GensAt(v, h)
                /\ \A j \in 1..Len(la) : la[j][1] \in Validators /\ la[j][2] = e.w[la[j][1]]
      ELSE g[1] = 0

ApiOK(v, o) == o.api = <<v.mhpv, v.mhpc, v.cert>>

StateOK(v, o) == Project(v) = ObsOf(v, o) /\ ProbeOK(v, o)
Matches(v, o) == o.apiErr = 0 /\ StateOK(v, o) /\ ApiOK(v, o) /\ HashOK(v, o) /\ GenOK(v, o)

Explain(v, o) == PrintT(<<"MISMATCH", l, ToJson(Project(v)), ToJson(ExpectProbes(v, o))>>)
\* ObsBlocking (default): the first deviation of the state ends the validation (everything after it would be noise).
\* C07 validates the contradiction probes and lets the monitor go on with the MODEL's state past deviations of the observed
\* state (the same headers were accepted on both sides, so the answers stay comparable); a header accepted by one side
\* only still ends the validation.
Blk(p) == IF ObsBlocking THEN ~p ELSE p

\* one verdict per line: the first conjunct that fails names the kind of the deviation
Check(v, o) ==
  /\ IF o.apiErr = 0 THEN TRUE ELSE Blk(PrintT(<<"MISMATCH-API", l, "error", o.apiMsg>>))
  /\ IF o.apiErr = 1 \/ StateOK(v, o) THEN TRUE ELSE Blk(Explain(v, o))
  /\ IF o.apiErr = 1 \/ ApiOK(v, o) THEN TRUE ELSE Blk(PrintT(<<"MISMATCH-API", l, "GetBFTHeights", <<v.mhpv, v.mhpc, v.cert>>>>))
  /\ IF o.apiErr = 1 \/ HashOK(v, o) THEN TRUE ELSE Blk(PrintT(<<"MISMATCH-HASH", l, ToJson(ExpectProbes(v, o))>>))
  /\ IF o.apiErr = 1 \/ GenOK(v, o) THEN TRUE
     ELSE Blk(PrintT(<<"MISMATCH-GEN", l, ToJson([gkeys |-> v.gkeys, probes |-> ExpectProbes(v, o)])>>))

Ev == TraceLog[l]

\* answers of the peers (shadow, twin) to the same call
AllP(xs, b) == \A i \in 1..Len(xs) : (xs[i] = 1) = b

TInit == /\ l = 1
         /\ votes = GenesisVotes(0, 3)
         /\ rr = [on |-> FALSE, q |-> 0, first |-> 0]

TReset ==
  /\ Ev.ev = "Init"
  /\ votes' = GenesisVotes(Ev.h0, Ev.win)
  /\ rr' = [on |-> Ev.rr = 1, q |-> Ev.q, first |-> Ev.h0 + 1]
  /\ Check(votes', Ev.obs)

TSetParams ==
  /\ Ev.ev = "SetParams"
  /\ LET w == ToSeqN(Ev.w, NVal)
         valid == ValidParams(Ev.pcT, Ev.certT, w, votes.win \div 3)
         v1 == IF valid THEN SetGenKeys(SetParams(votes, Ev.pcT, Ev.certT, w), Ev.gens) ELSE votes
     IN /\ votes' = v1
        /\ IF (Ev.err = 1) = ~valid /\ AllP(Ev.errP, ~valid) THEN TRUE ELSE ~PrintT(<<"MISMATCH-ERR", l, valid>>)
        /\ Check(v1, Ev.obs)
  /\ UNCHANGED rr

TContra ==     \* API.IsHeaderContradictingChain probe, no state change (C07)
  /\ Ev.ev = "Contra"
  /\ LET hdr == [h |-> Ev.h, gen |-> Ev.gen, mhg |-> Ev.mhg, mhp |-> Ev.mhp] IN
     /\ IF Ev.err = 0 THEN TRUE ELSE Blk(PrintT(<<"MISMATCH-API", l, "error", "IsHeaderContradictingChain">>))
     /\ IF Ev.err = 1 \/ ((Ev.res = 1) = ContraChain(votes, hdr) /\ AllP(Ev.resP, ContraChain(votes, hdr))) THEN TRUE
        ELSE Blk(PrintT(<<"MISMATCH-CONTRA", l, ContraChain(votes, hdr)>>))
  /\ UNCHANGED <<votes, rr>>

THeader ==
  /\ Ev.ev = "Header"
  /\ LET hdr == [h |-> Ev.h, gen |-> Ev.gen, mhg |-> Ev.mhg, mhp |-> Ev.mhp, acH |-> Ev.acH,
                 \* updateMaxHeightCertified: a commit is empty iff BOTH byte fields are empty
                 acNonEmpty |-> Ev.acBits = 1 \/ Ev.acSig = 1]
         def == ApplyDefined(votes, hdr)
         v1 == IF def THEN Apply(votes, hdr) ELSE votes
     IN /\ votes' = v1
        /\ IF (Ev.err = 1) = ~def /\ AllP(Ev.errP, ~def) THEN TRUE ELSE ~PrintT(<<"MISMATCH-ERR", l, def>>)
        /\ Check(v1, Ev.obs)
        /\ IF ~def \/ ((Ev.implies = 1) = ImpliesMaxPrevotes(v1, hdr) /\ AllP(Ev.impliesP, ImpliesMaxPrevotes(v1, hdr))) THEN TRUE
           ELSE ~PrintT(<<"MISMATCH-IMPLIES", l>>)
  /\ UNCHANGED rr

TPeer ==       \* the observation of another real node that was fed the same chain (kind "main": the node itself, once more)
  /\ Ev.ev = "Peer"
  /\ IF Matches(votes, Ev.obs) THEN TRUE
     ELSE Blk(PrintT(<<"MISMATCH-PEER", l, Ev.kind, ToJson(Project(votes)), ToJson(ExpectProbes(votes, Ev.obs))>>))
  /\ UNCHANGED <<votes, rr>>

TNext == /\ l <= Len(TraceLog)
         /\ (TReset \/ TSetParams \/ TContra \/ THeader \/ TPeer)
         /\ l' = l + 1
         /\ TLCSet(1, l)

TSpec == TInit /\ [][TNext]_tvars

(* ---- properties evaluated in every state of every validated trace ---- *)
\* heights are ordered and bounded by the tip
HeightsSane == votes.mhpc <= votes.mhpv /\ (Len(votes.infos) > 0 => votes.mhpv <= votes.infos[1].h)
\* C02: in a fault-free round-robin run every block is final within two quorums of blocks
RoundRobinFinal ==
  (rr.on /\ Len(votes.infos) > 0 /\ votes.infos[1].h - 2 * rr.q + 1 >= rr.first)
     => votes.mhpc >= votes.infos[1].h - 2 * rr.q + 1
\* monotone along a chain (action property)
Monotone == [][Ev.ev # "Init" => (votes'.mhpv >= votes.mhpv /\ votes'.mhpc >= votes.mhpc)]_tvars

Accepted == TLCGet(1) = Len(TraceLog)
=============================================================================
