--------------------------- MODULE HandoverTrace ---------------------------
(***************************************************************************)
(* Trace validation of the operator interface of block generation          *)
(* (spec/Handover.tla) against runs of two real nodes (harness/cmd/c15     *)
(* handover).  One line per step: the endpoint call with its real request  *)
(* values and real answer, the real header of a generated block, the real  *)
(* tip (height, maxHeightPrevoted) before and after, and after every step  *)
(* the generator's OWN view of its stored info and of the enabled flag.    *)
(* Every line is one action of Handover.tla with its parameters bound to   *)
(* the logged values (the maxHeightPrevoted values of the chain come from  *)
(* the real BFT module); what the action computes - the answer, the        *)
(* header, the stored info, the flag - is compared with what was logged.   *)
(* "reset" starts the next script.                                         *)
(***************************************************************************)
EXTENDS Handover
TwoNodes == {1, 2}

CONSTANT TraceFile
TraceLog == ndJsonDeserialize(TraceFile)
VARIABLE l
Ev == TraceLog[l]
tvars == <<vars, l>>
Check(ok, tag, detail) == IF ok THEN TRUE ELSE PrintT(<<"MISMATCH", l, tag, detail>>)
I(r) == [h |-> r.h, mhp |-> r.mhp, mhg |-> r.mhg]
LastRec == script'[Len(script')]
NewMhp == chain'[Len(chain')].mhp

TInit == Init /\ l = 1

Reset ==
  /\ chain' = <<>> /\ have' = [n \in Nodes |-> 0]
  /\ keys' = [n \in Nodes |-> InitKeys] /\ ginfo' = [n \in Nodes |-> NoInfo] /\ present' = [n \in Nodes |-> FALSE]
  /\ enabled' = [n \in Nodes |-> FALSE] /\ note' = NoInfo /\ signed' = {} /\ followed' = TRUE /\ forgedAt' = {} /\ script' = <<>>

\* the node's real tip before the step is the model's
TipOK == Check(Ev.tip.h = have[Ev.n] /\ Ev.tip.mhp = MhpAt(have[Ev.n]), "tip", ToJson(<<have[Ev.n], MhpAt(have[Ev.n])>>))

\* after the step: what the generator itself would read, and whether it may generate
After(n) ==
  /\ Check(Ev.stored.present = (IF present'[n] THEN 1 ELSE 0) /\ (present'[n] => I(Ev.stored.info) = ginfo'[n]),
           "generator-store", ToJson([present |-> present'[n], info |-> ginfo'[n]]))
  /\ Check(Ev.en = (IF enabled'[n] THEN 1 ELSE 0), "enabled-flag", ToJson(<<enabled'[n]>>))

Line ==
  LET n == Ev.n IN
  CASE Ev.ev = "reset" -> Reset
    [] Ev.ev = "setkeys" ->
         /\ SetKeys(n, Ev.type)
         /\ Check(Ev.res = "ok" /\ Ev.haskeys = 1 /\ Ev.listed = Ev.type, "keys-stored", Ev.type) /\ After(n)
    [] Ev.ev = "other" ->
         /\ TipOK /\ Other(n) /\ NewMhp = Ev.newtip.mhp
         /\ Check(Ev.newtip.h = Len(chain'), "tip", "other") /\ After(n)
    [] Ev.ev = "catch" ->
         /\ TipOK /\ Catch(n)
         /\ Check(Ev.newtip.h = have'[n] /\ Ev.newtip.mhp = chain[have'[n]].mhp, "tip", "catch") /\ After(n)
    [] Ev.ev = "forge" /\ Ev.forged = 1 /\ Ev.accepted = 0 ->
         \* the node rejects the block its own generator produced: only a header that contradicts an earlier one of the
         \* validator may end like this (the operator did not follow the protocol); the script ends here
         /\ LET hdr == I(Ev.hdr) IN
            Check(\E x \in signed : Contra(x, hdr), "generated-block-rejected", ToJson(hdr))
         /\ UNCHANGED vars
    [] Ev.ev = "forge" /\ Ev.forged = 1 ->
         /\ TipOK /\ Forge(n) /\ NewMhp = Ev.newtip.mhp
         /\ Check(Ev.own = 1, "forge-wrong-generator", "")
         /\ Check(LastRec.hdr = I(Ev.hdr), "forge-header", ToJson(LastRec.hdr)) /\ After(n)
    [] Ev.ev = "forge" /\ Ev.forged = 0 ->
         \* the model says this node generates now; the real generator did not (the script ends here)
         /\ Check(FALSE, "no-block-while-enabled", ToJson(<<enabled[n]>>)) /\ UNCHANGED vars
    [] Ev.ev = "idle" /\ Ev.forged = 0 -> TipOK /\ Idle(n) /\ After(n)
    [] Ev.ev = "idle" /\ Ev.forged = 1 ->
         /\ Check(FALSE, "block-while-disabled", ToJson(I(Ev.hdr))) /\ UNCHANGED vars
    [] Ev.ev = "getstatus" ->
         /\ GetStatus(n)
         /\ Check(Ev.res = "ok" /\ Ev.present = (IF present[n] THEN 1 ELSE 0) /\ (present[n] => I(Ev.info) = ginfo[n] /\ Ev.enabled = (IF enabled[n] THEN 1 ELSE 0)),
                  "getstatus", ToJson([present |-> present[n], info |-> ginfo[n], enabled |-> enabled[n]]))
         /\ Check(Ev.strays = 0, "getstatus-stray-entry", ToJson(<<Ev.strays>>)) /\ After(n)
    [] Ev.ev = "setstatus" ->
         /\ SetStatus(n, I(Ev.info)) /\ Check(Ev.res = "ok", "setstatus", Ev.res) /\ After(n)
    [] Ev.ev = "enable" ->
         /\ TipOK /\ Enable(n, I(Ev.info))
         \* ("refused": the call was refused with a text the harness does not know - error texts are not part of the property)
         /\ Check(LastRec.res = Ev.res \/ (Ev.res = "refused" /\ LastRec.res # "ok"), "enable-result", LastRec.res) /\ After(n)
    [] Ev.ev = "enable-badpw" ->
         /\ EnableBadPw(n) /\ Check(Ev.res = "bad-password", "enable-result", "bad-password") /\ After(n)
    [] Ev.ev = "disable" ->
         /\ Disable(n) /\ Check(Ev.res = "ok", "disable", Ev.res) /\ After(n)
    [] Ev.ev = "restart" -> Restart(n) /\ After(n)

TNext == l <= Len(TraceLog) /\ Line /\ l' = l + 1
TSpec == TInit /\ [][TNext]_tvars
\* the purpose of the interface, on the real headers (the model's signed set is built from the model's own header
\* computation; a real header that differs is reported by forge-header)
TraceNoContradiction == NoContradiction
=============================================================================
