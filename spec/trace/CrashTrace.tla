----------------------------- MODULE CrashTrace -----------------------------
(***************************************************************************)
(* Monitor for crash-point observations of the real node (C13).  Each line *)
(* is one injected crash:                                                  *)
(*   kind     step kind (block, delete, delete+temp, restore, genesis,     *)
(*            tiebreak, tiebreak-bad)                                      *)
(*   model    crash model of Crash.tla (powerloss / processdeath)          *)
(*   k, n     crash at file-system operation k of the n the step performs  *)
(*   stages   number of atomic sub-steps the statement sees in the step     *)
(*            (1; 2 for a tie break: removal of the tip, then addition)    *)
(*   state    index 0..stages of the clean run's state (0 = before the     *)
(*            step, stages = after it) whose database equals the one found *)
(*            after the restart, -1 if it equals none of them              *)
(*   effects  key spaces the step changes, durable: those of them found in *)
(*            their final state (both computed by the harness on the       *)
(*            projection that ignores data of finalized heights)           *)
(*   inv      violated recovery invariants                                 *)
(* The observation must be a state the one-batch-per-stage shape of        *)
(* Crash.tla can recover to (Crash!Admissible on the numbered stages): a   *)
(* prefix of the stages, never a part of one.                              *)
(***************************************************************************)
EXTENDS Integers, Sequences, FiniteSets, TLC, Json

CONSTANT TraceFile
TraceLog == ndJsonDeserialize(TraceFile)
VARIABLE l
Ev == TraceLog[l]
ToSet(s) == {s[i] : i \in 1..Len(s)}
TInit == l = 1
Check(ok, tag, detail) == IF ok THEN TRUE ELSE PrintT(<<"MISMATCH", l, tag, detail>>)
TNext ==
  /\ l <= Len(TraceLog)
  /\ Check(Ev.model \in {"powerloss", "processdeath"} /\ Ev.stages >= 1, "recovery-invariant", "malformed record")
  /\ Check(Len(Ev.inv) = 0, "recovery-invariant", ToJson(Ev.inv))
  \* (a record with a violated invariant is reported under that invariant's key only)
  /\ Check(Len(Ev.inv) > 0 \/ Ev.state \in 0..Ev.stages, "partial-step", ToJson(Ev.durable))
  /\ Check(Len(Ev.inv) > 0 \/ Ev.stages > 1 \/ ToSet(Ev.durable) = {} \/ ToSet(Ev.durable) = ToSet(Ev.effects), "partial-step", ToJson(Ev.durable))
  /\ l' = l + 1
TSpec == TInit /\ [][TNext]_l
=============================================================================
