----------------------------- MODULE CrashTrace -----------------------------
(***************************************************************************)
(* Monitor for crash-point observations of the real node (C13).  Each line *)
(* is one injected crash: [kind, k, effects] where effects is the set of   *)
(* effects of the interrupted step found durable after recovery (computed  *)
(* by the harness by comparing the recovered database, key space by key    *)
(* space, with the pre- and post-state), and inv the list of violated      *)
(* recovery invariants.  The observation must be a state the one-batch     *)
(* shape of Crash.tla can recover to: no effect or all effects.            *)
(***************************************************************************)
EXTENDS Integers, Sequences, FiniteSets, TLC, Json

CONSTANT TraceFile
TraceLog == ndJsonDeserialize(TraceFile)
VARIABLE l
Ev == TraceLog[l]
ToSet(s) == {s[i] : i \in 1..Len(s)}
TInit == l = 1
Check(ok, tag, detail) == IF ok THEN TRUE ELSE PrintT(<<"MISMATCH", l, tag, detail>>)
TNext ==
  /\ l <= Len(TraceLog)
  /\ Check(ToSet(Ev.durable) = {} \/ ToSet(Ev.durable) = ToSet(Ev.effects), "partial-step", ToJson(Ev.durable))
  /\ Check(Len(Ev.inv) = 0, "recovery-invariant", ToJson(Ev.inv))
  /\ l' = l + 1
TSpec == TInit /\ [][TNext]_l
=============================================================================
