------------------------------ MODULE WireTrace ------------------------------
(***************************************************************************)
(* Monitor for records of the real generated codecs (C08, binding B).      *)
(* Every line is one call of the real code with its arguments and result:  *)
(*   enc   type, schema, value, bytes = real Encode(value),                *)
(*         strict = real DecodeStrict(bytes) accepted (0/1),               *)
(*         dec = abstract value of real Decode(bytes)                      *)
(*   l32   addr (20 bytes), sym = symbols of the real BytesToLisk32 text   *)
(*   l32v  sym (38 symbols), ok = real Lisk32ToBytes accepted the text     *)
(*   l32t  text (character codes of an address text: case, prefix and      *)
(*         alphabet probes), ok = real Lisk32ToBytes accepted the text     *)
(* The monitor recomputes each result with the reference codec of          *)
(* Wire.tla; a difference is printed as <<"MISMATCH", line, what, ...>>    *)
(* and the monitor goes on (no record changes any state but the counter).  *)
(***************************************************************************)
EXTENDS Wire, Json

CONSTANT TraceFile
TraceLog == ndJsonDeserialize(TraceFile)

VARIABLE l
Ev == TraceLog[l]
B(c) == IF c THEN 1 ELSE 0

Check(what, got, exp) == IF got = exp THEN TRUE ELSE PrintT(<<"MISMATCH", l, what, ToJson(exp)>>)

Step ==
  LET e == Ev IN
  CASE e.op = "enc" ->
         LET r == StrictParse(e.schema, e.bytes) IN
         /\ Check("untyped", B(WellTyped(e.schema, e.value)), 1)          \* harness sanity: the abstraction fits the schema
         /\ Check("wire", e.bytes, Encode(e.schema, e.value))
         /\ Check("strict", e.strict, B(r.ok))
         /\ (IF r.ok THEN Check("decode", e.dec, r.v) ELSE TRUE)
    [] e.op = "l32" -> Check("lisk32-text", e.sym, L32Encode(e.addr))
    [] e.op = "l32v" -> Check("lisk32-verdict", e.ok, B(L32Valid(e.sym)))
    [] e.op = "l32t" -> Check("lisk32-textverdict", e.ok, B(L32TextValid(e.text)))

TInit == l = 1
TNext == l <= Len(TraceLog) /\ Step /\ l' = l + 1
TSpec == TInit /\ [][TNext]_l
=============================================================================
