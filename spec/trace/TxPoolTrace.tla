---------------------------- MODULE TxPoolTrace ----------------------------
(***************************************************************************)
(* Monitor for traces of the real txpool.TransactionPool (C14).            *)
(* Line 1 declares the transaction universe.  Every other line is one      *)
(* public call on the real pool with its result, the verifier calls it     *)
(* caused and the snapshot of the three indexes taken right after it       *)
(* (harness/cmd/c14).  For every line the monitor checks that              *)
(*   - the observed post-state satisfies every invariant of TxPool.tla,    *)
(*   - it is ONE OF the results TxPool.tla permits for that call in the    *)
(*     previously observed state (AddSucc / RemoveSucc / ReorgSenderSucc), *)
(*   - a call that did not return (watchdog) or panicked is reported.      *)
(* Monitor style: a failed check prints                                    *)
(*     <<"MISMATCH", line, kind, detail, secondary>>                       *)
(* and the monitor continues from the OBSERVED state.  An invariant is     *)
(* reported at the line that breaks it, not again while it stays broken;   *)
(* secondary = 1 marks reports made while the previous observed state      *)
(* already had disagreeing indexes (consequences of an earlier report).    *)
(***************************************************************************)
EXTENDS TxPool, Json

CONSTANT TraceFile
TraceLog == ndJsonDeserialize(TraceFile)

TxTab == TraceLog[1].txs
T(id) == TxTab[id]
TTxs == {TxTab[i] : i \in 1..Len(TxTab)}
TSenders == 1..TraceLog[1].senders

VARIABLES l, pre, cfg, verd
tvars == <<l, pre, cfg, verd>>

Ev == TraceLog[l]
SeqSet(s) == {s[i] : i \in 1..Len(s)}
Has(e, f) == f \in DOMAIN e

(* ------------------------- observed state -------------------------------- *)
AccOf(sn, s) == {sn.acc[j] : j \in {i \in 1..Len(sn.acc) : sn.acc[i].s = s}}
Obs(sn) ==
  [all  |-> {T(sn.all[i]) : i \in 1..Len(sn.all)},
   list |-> [s \in Senders |-> UNION {{<<a.txs[i][1], T(a.txs[i][2])>> : i \in 1..Len(a.txs)} : a \in AccOf(sn, s)}],
   proc |-> [s \in Senders |-> IF AccOf(sn, s) = {} THEN <<>>
                               ELSE (CHOOSE x \in AccOf(sn, s) : TRUE).proc],
   feeQ |-> [i \in 1..Len(sn.q) |-> T(sn.q[i][1])]]

Sec == IF IndexesAgree(pre) THEN 0 ELSE 1
Report(kind, detail) == PrintT(<<"MISMATCH", l, kind, detail, Sec>>)
Chk(c, kind, detail) == IF c THEN TRUE ELSE Report(kind, detail)
\* an invariant is reported where it becomes false
ChkNew(P(_), o, kind, detail) == IF P(o) \/ ~P(pre) THEN TRUE ELSE Report(kind, detail)

(* ------------------------- invariants on a snapshot ---------------------- *)
QSubAll(st) == ToSet(st.feeQ) \subseteq st.all
AllSubQ(st) == st.all \subseteq ToSet(st.feeQ)
QNoDup(st) == Len(st.feeQ) = Cardinality(ToSet(st.feeQ))
ProcAscending(st) == \A s \in Senders : \A i \in 2..Len(st.proc[s]) : st.proc[s][i] > st.proc[s][i - 1]
ProcNoGap(st) == \A s \in Senders : \A i \in 2..Len(st.proc[s]) : st.proc[s][i] <= st.proc[s][i - 1] + 1

InvChecks(o) ==
  /\ ChkNew(InvAllInList, o, "index-disagree", "allTransactions-entry-not-in-one-sender-list")
  /\ ChkNew(InvListInAll, o, "index-disagree", "sender-list-entry-not-in-allTransactions")
  /\ ChkNew(InvAtNonce, o, "index-disagree", "sender-list-entry-under-wrong-sender-or-nonce")
  /\ ChkNew(InvOnePerNonce, o, "duplicate-nonce", "sender-list")
  /\ ChkNew(QSubAll, o, "index-disagree", "feeQueue-entry-not-in-allTransactions")
  /\ ChkNew(AllSubQ, o, "index-disagree", "allTransactions-entry-not-in-feeQueue")
  /\ ChkNew(QNoDup, o, "index-disagree", "feeQueue-duplicate-entry")
  /\ ChkNew(LAMBDA st : InvPoolBound(cfg, st), o, "over-capacity", "pool")
  /\ ChkNew(LAMBDA st : InvSenderBound(cfg, st), o, "over-capacity", "sender")
  /\ ChkNew(InvProcInList, o, "processable-not-in-list", "")
  /\ ChkNew(ProcAscending, o, "processable-not-ascending", "")
  /\ ChkNew(ProcNoGap, o, "processable-gap", "")

\* checks on the raw snapshot that the abstract state does not carry
RawChecks(sn) ==
  /\ \A i \in 1..Len(sn.bad) : Report("index-disagree", sn.bad[i])
  /\ \A i \in 1..Len(sn.acc) :
       LET a == sn.acc[i] IN
       /\ Chk(Len(a.heap) = Cardinality(SeqSet(a.heap)), "duplicate-nonce", "nonce-heap")
       /\ Chk(SeqSet(a.heap) = {a.txs[j][1] : j \in 1..Len(a.txs)}, "index-disagree", "sender-nonce-heap-vs-transactions")
  /\ Chk(\A i \in 1..Len(sn.q) : sn.q[i][2] = Prio(T(sn.q[i][1])), "index-disagree", "feeQueue-priority")
  /\ Chk(\A i \in 1..Len(sn.q) : sn.q[1][2] <= sn.q[i][2], "index-disagree", "feeQueue-head-not-minimum")

(* ------------------------------ per call --------------------------------- *)
Where(o, x) == (IF x \in o.all THEN {"allTransactions"} ELSE {})
               \cup (IF x \in ToSet(o.feeQ) THEN {"feeQueue"} ELSE {})
               \cup (IF x \in ListAll(o) THEN {"senderList"} ELSE {})

AddDiag(o, t, v, ok) ==
  LET s == t.sender  old == At(pre, s, t.nonce) \ {t} IN
  IF ok /\ t \in pre.all THEN "accepted-duplicate"
  ELSE IF ok /\ Prio(t) < cfg.minp THEN "accepted-below-min-fee-priority"
  ELSE IF ok /\ v = "invalid" THEN "accepted-invalid"
  ELSE IF ok /\ ~(t \in o.all /\ t \in ListTxs(o, s)) THEN "accepted-but-not-pooled"
  ELSE IF ~ok /\ t \notin pre.all /\ Where(o, t) # {} THEN "rejected-but-pooled"
  ELSE IF ok /\ (\E x \in old : t.fee < x.fee + cfg.diff) /\ ~PoolFull(cfg, pre) THEN "replacement-without-fee-increase"
  ELSE IF \E x \in old : ok /\ Where(o, x) # {} THEN "replaced-still-pooled"
  ELSE IF \E x \in ListAll(pre) \ ListAll(o) : x \in o.all \/ x \in ToSet(o.feeQ) THEN "evicted-still-pooled"
  ELSE IF Cardinality(o.all) > cfg.max THEN "over-capacity-pool"
  ELSE IF Cardinality(o.list[s]) > cfg.acc THEN "over-capacity-sender"
  ELSE IF ~ok /\ t \notin pre.all /\ Prio(t) >= cfg.minp /\ v # "invalid" /\ ~PoolFull(cfg, pre)
          /\ ~SenderFull(cfg, pre, s) /\ old = {} THEN "rejected-without-reason"
  ELSE IF ~ok /\ ~PoolFull(cfg, pre) /\ Canon(o) # Canon(pre) THEN "rejected-but-state-changed"
  ELSE "other"

AddChecks(e, o) ==
  LET t == T(e.t)  v == verd[e.t]  ok == e.res = 1  s == t.sender
      old == At(pre, s, t.nonce) \ {t}
      left == ListTxs(pre, s) \ (ListTxs(o, s) \cup old)
  IN
  \* a replaced transaction is gone from every index
  /\ \A x \in old : (ok /\ t \in ListTxs(o, s)) => \A w \in Where(o, x) : Report("stale-after-replacement", w)
  \* whatever else left the sender's list (per-sender limit) is gone from the other indexes as well
  /\ \A x \in left : \A w \in Where(o, x) : Report("stale-after-sender-eviction", w)
  /\ IF ~IndexesAgree(pre) THEN TRUE
     ELSE IF [st |-> Canon(o), ok |-> ok] \in {[st |-> Canon(r.st), ok |-> r.ok] : r \in AddSucc(cfg, pre, t, v)} THEN TRUE
     ELSE Report("not-a-successor:add", AddDiag(o, t, v, ok))

RemoveChecks(e, o) ==
  LET t == T(e.t)  ok == e.res = 1 IN
  IF ~IndexesAgree(pre) THEN TRUE
  ELSE IF [st |-> Canon(o), ok |-> ok] \in {[st |-> Canon(r.st), ok |-> r.ok] : r \in RemoveSucc(pre, t)} THEN TRUE
  ELSE Report("not-a-successor:remove",
              IF ok /\ t \notin pre.all THEN "removed-unknown"
              ELSE IF ~ok /\ t \in pre.all THEN "not-removed"
              ELSE IF Where(o, t) # {} THEN "still-pooled"
              ELSE "other")

ReorgChecks(e, o) ==
  LET ans == [t \in Txs |-> verd[t.id]]
      asked == {T(e.calls[i].t) : i \in {j \in 1..Len(e.calls) : e.calls[j].v # "invalid"}}
  IN
  \* every newly processable transaction was verified in this step and not answered invalid
  /\ Chk((ProcTxs(o) \ ProcTxs(pre)) \subseteq asked, "processable-unverified", "")
  /\ IF ~IndexesAgree(pre) THEN TRUE
     ELSE \A s \in Senders :
            IF \E r \in ReorgSenderSucc(pre, s, ans) : r.st.list[s] = o.list[s] /\ r.st.proc[s] = o.proc[s]
            THEN TRUE
            ELSE Report("not-a-successor:reorg",
                        IF \E x \in (ProcTxs(o) \ ProcTxs(pre)) : x.sender = s /\ verd[x.id] = "invalid" THEN "promoted-invalid"
                        ELSE IF ListTxs(o, s) # ListTxs(pre, s) /\ \A x \in RunTxs(pre, s) : verd[x.id] # "invalid" THEN "dropped-without-invalid-answer"
                        ELSE IF o.proc[s] = pre.proc[s] /\ o.list[s] = pre.list[s] THEN "no-promotion"
                        ELSE "other")

ReadChecks(e, o) ==
  /\ Chk(Canon(o) = Canon(pre), "not-a-successor:read", e.op)
  /\ CASE e.op = "get" -> Chk((e.res = 1) = (T(e.t) \in o.all), "index-disagree", "Get-vs-allTransactions")
       [] e.op = "getall" -> Chk({T(e.res[i]) : i \in 1..Len(e.res)} = o.all /\ Len(e.res) = Cardinality(o.all),
                                 "index-disagree", "GetAll-vs-allTransactions")
       [] e.op = "getprocessable" ->
            IF 0 \in SeqSet(e.res) THEN Report("index-disagree", "GetProcessable-nil-entry")
            ELSE Chk({T(e.res[i]) : i \in 1..Len(e.res)} = ProcTxs(o) /\ Len(e.res) = Cardinality(ProcTxs(o)),
                     "index-disagree", "GetProcessable-vs-processables")

BlockedDetail(e) ==
  CASE e.op = "add" -> IF PoolFull(cfg, pre) THEN "Add-when-full" ELSE "Add"
    [] e.op = "remove" -> "Remove"
    [] e.op = "reorg" -> "Reorg"
    [] e.op = "ilv" -> "Reorg-interleaved"
    [] e.op = "concurrent" -> "concurrent"
    [] e.op = "snapshot" -> "Snapshot"
    [] OTHER -> e.op

TInit == l = 1 /\ pre = Empty /\ cfg = [max |-> 1, acc |-> 1, diff |-> 1, minp |-> 0]
         /\ verd = [i \in 1..Len(TxTab) |-> "ok"]
         /\ Init                       \* the variables of the exhaustive model are not used by the monitor

Step ==
  LET e == Ev IN
  IF e.op = "universe" \/ e.op = "intent" THEN UNCHANGED <<pre, cfg, verd>>
  ELSE IF e.op = "reset" THEN
    /\ cfg' = [max |-> e.max, acc |-> e.acc, diff |-> e.diff, minp |-> e.minp]
    /\ pre' = Empty /\ verd' = [i \in 1..Len(TxTab) |-> "ok"]
  ELSE IF e.op = "verdict" THEN
    /\ verd' = [verd EXCEPT ![e.t] = e.v] /\ UNCHANGED <<pre, cfg>>
  ELSE IF Has(e, "blocked") /\ e.blocked = 1 THEN
    /\ Report("operation-blocked", BlockedDetail(e)) /\ UNCHANGED <<pre, cfg, verd>>
  ELSE IF Has(e, "panic") /\ e.panic # "" THEN
    /\ Report("panic", e.op) /\ UNCHANGED <<pre, cfg, verd>>
  ELSE
    LET o == Obs(e.snap) IN
    /\ RawChecks(e.snap)
    /\ InvChecks(o)
    /\ CASE e.op = "add" -> AddChecks(e, o)
         [] e.op = "remove" -> RemoveChecks(e, o)
         [] e.op = "reorg" -> ReorgChecks(e, o)
         [] e.op \in {"get", "getall", "getprocessable"} -> ReadChecks(e, o)
         [] OTHER -> TRUE          \* "ilv", "concurrent": only the state at quiescence is constrained
    /\ pre' = o /\ UNCHANGED <<cfg, verd>>

TNext == l <= Len(TraceLog) /\ Step /\ l' = l + 1 /\ UNCHANGED vars
TSpec == TInit /\ [][TNext]_<<tvars, vars>>
=============================================================================
