---------------------------- MODULE TxPoolTrace ----------------------------
(***************************************************************************)
(* Monitor for traces of the real txpool.TransactionPool (C14).            *)
(* Line 1 declares the transaction universe.  Every other line is one      *)
(* public call on the real pool with its result, the verifier calls it     *)
(* caused and the snapshot of the three indexes taken right after it       *)
(* (harness/cmd/c14).  For every line the monitor checks that              *)
(*   - the observed post-state satisfies every invariant of TxPool.tla,    *)
(*   - it is ONE OF the results TxPool.tla permits for that call in the    *)
(*     previously observed state (AddSucc / RemoveSucc / ReorgSenderSucc), *)
(*   - a call that did not return (watchdog) or panicked is reported.      *)
(* A promotion step that the harness suspends inside the verifier (lines   *)
(* "ilv") is checked as a PARTIAL step: what it may have promoted / dropped *)
(* between two observations, given the verifier calls it made so far.      *)
(* The line of a concurrent run carries what every goroutine was told      *)
(* (accepted adds, removes issued, verdicts set, every read result); the    *)
(* state at quiescence and the read results are checked against it.        *)
(* "recheck" lines hold a value an earlier read returned, read again after  *)
(* later calls: it must not have changed.                                  *)
(* Monitor style: a failed check prints                                    *)
(*     <<"MISMATCH", line, kind, detail, secondary>>                       *)
(* and the monitor continues from the OBSERVED state.  An invariant is     *)
(* reported at the line that breaks it, not again while it stays broken;   *)
(* secondary = 1 marks reports made while the previous observed state      *)
(* already had disagreeing indexes (consequences of an earlier report).    *)
(* <<"NOTE", line, kind, detail>> lines are coverage notes (behaviour the   *)
(* statement permits but today's implementation does not show, or the      *)
(* other way round); they are counted, never reported.                     *)
(***************************************************************************)
EXTENDS TxPool, Json

CONSTANT TraceFile
TraceLog == ndJsonDeserialize(TraceFile)

TxTab == TraceLog[1].txs
T(id) == TxTab[id]
TTxs == {TxTab[i] : i \in 1..Len(TxTab)}
TSenders == 1..TraceLog[1].senders

VARIABLES l, pre, cfg, verd,
          aux    \* the suspended promotion step: state when it started, verifier calls it made before the suspension
tvars == <<l, pre, cfg, verd, aux>>

Ev == TraceLog[l]
SeqSet(s) == {s[i] : i \in 1..Len(s)}
Has(e, f) == f \in DOMAIN e

(* ------------------------- observed state -------------------------------- *)
AccOf(sn, s) == {sn.acc[j] : j \in {i \in 1..Len(sn.acc) : sn.acc[i].s = s}}
Obs(sn) ==
  [all  |-> {T(sn.all[i]) : i \in 1..Len(sn.all)},
   list |-> [s \in Senders |-> UNION {{<<a.txs[i][1], T(a.txs[i][2])>> : i \in 1..Len(a.txs)} : a \in AccOf(sn, s)}],
   proc |-> [s \in Senders |-> IF AccOf(sn, s) = {} THEN <<>>
                               ELSE (CHOOSE x \in AccOf(sn, s) : TRUE).proc],
   feeQ |-> [i \in 1..Len(sn.q) |-> T(sn.q[i][1])]]

Sec == IF IndexesAgree(pre) THEN 0 ELSE 1
Report(kind, detail) == PrintT(<<"MISMATCH", l, kind, detail, Sec>>)
Chk(c, kind, detail) == IF c THEN TRUE ELSE Report(kind, detail)
Note(kind, detail) == PrintT(<<"NOTE", l, kind, detail>>)
\* (IF, not a disjunction: TLC would explore both sides of a disjunction inside the next-state action)
NoteUnless(c, kind, detail) == IF c THEN TRUE ELSE Note(kind, detail)
SetMax(S) == CHOOSE x \in S : \A y \in S : x >= y
IdSet(a) == {T(a[i]) : i \in 1..Len(a)}
\* an invariant is reported where it becomes false
ChkNew(P(_), o, kind, detail) == IF P(o) \/ ~P(pre) THEN TRUE ELSE Report(kind, detail)

(* ------------------------- invariants on a snapshot ---------------------- *)
QSubAll(st) == ToSet(st.feeQ) \subseteq st.all
AllSubQ(st) == st.all \subseteq ToSet(st.feeQ)
QNoDup(st) == Len(st.feeQ) = Cardinality(ToSet(st.feeQ))
ProcAscending(st) == \A s \in Senders : \A i \in 2..Len(st.proc[s]) : st.proc[s][i] > st.proc[s][i - 1]
ProcNoGap(st) == \A s \in Senders : \A i \in 2..Len(st.proc[s]) : st.proc[s][i] <= st.proc[s][i - 1] + 1

InvChecks(o) ==
  /\ ChkNew(InvAllInList, o, "index-disagree", "allTransactions-entry-not-in-one-sender-list")
  /\ ChkNew(InvListInAll, o, "index-disagree", "sender-list-entry-not-in-allTransactions")
  /\ ChkNew(InvAtNonce, o, "index-disagree", "sender-list-entry-under-wrong-sender-or-nonce")
  /\ ChkNew(InvOnePerNonce, o, "duplicate-nonce", "sender-list")
  /\ ChkNew(QSubAll, o, "index-disagree", "feeQueue-entry-not-in-allTransactions")
  /\ ChkNew(AllSubQ, o, "index-disagree", "allTransactions-entry-not-in-feeQueue")
  /\ ChkNew(QNoDup, o, "index-disagree", "feeQueue-duplicate-entry")
  /\ ChkNew(LAMBDA st : InvPoolBound(cfg, st), o, "over-capacity", "pool")
  /\ ChkNew(LAMBDA st : InvSenderBound(cfg, st), o, "over-capacity", "sender")
  /\ ChkNew(InvProcInList, o, "processable-not-in-list", "")
  /\ ChkNew(ProcAscending, o, "processable-not-ascending", "")
  /\ ChkNew(ProcNoGap, o, "processable-gap", "")

\* checks on the raw snapshot that the abstract state does not carry
RawChecks(sn) ==
  /\ \A i \in 1..Len(sn.bad) : Report("index-disagree", sn.bad[i])
  /\ \A i \in 1..Len(sn.acc) :
       LET a == sn.acc[i] IN
       /\ Chk(Len(a.heap) = Cardinality(SeqSet(a.heap)), "duplicate-nonce", "nonce-heap")
       /\ Chk(SeqSet(a.heap) = {a.txs[j][1] : j \in 1..Len(a.txs)}, "index-disagree", "sender-nonce-heap-vs-transactions")
  \* how the fee queue is ordered and which number it stores as priority is representation: the statement leaves the
  \* victim of a full pool open, so neither can falsify it (notes only)
  /\ NoteUnless(\A i \in 1..Len(sn.q) : sn.q[i][2] = Prio(T(sn.q[i][1])), "feeQueue-priority", "")
  /\ NoteUnless(\A i \in 1..Len(sn.q) : sn.q[1][2] <= sn.q[i][2], "feeQueue-head-not-minimum", "")

(* ------------------------------ per call --------------------------------- *)
Where(o, x) == (IF x \in o.all THEN {"allTransactions"} ELSE {})
               \cup (IF x \in ToSet(o.feeQ) THEN {"feeQueue"} ELSE {})
               \cup (IF x \in ListAll(o) THEN {"senderList"} ELSE {})

AddDiag(o, t, v, ok) ==
  LET s == t.sender  old == At(pre, s, t.nonce) \ {t} IN
  IF ok /\ t \in pre.all THEN "accepted-duplicate"
  ELSE IF ok /\ Prio(t) < cfg.minp THEN "accepted-below-min-fee-priority"
  ELSE IF ok /\ v = "invalid" THEN "accepted-invalid"
  ELSE IF ok /\ ~(t \in o.all /\ t \in ListTxs(o, s)) THEN "accepted-but-not-pooled"
  ELSE IF ~ok /\ t \notin pre.all /\ Where(o, t) # {} THEN "rejected-but-pooled"
  ELSE IF ok /\ (\E x \in old : t.fee < x.fee + cfg.diff) /\ ~PoolFull(cfg, pre) THEN "replacement-without-fee-increase"
  ELSE IF ok /\ AllRunsArePrefixes(pre) /\ (\E x \in old : t.fee < x.fee + cfg.diff /\ x \notin CheapestVictims(pre) /\ Where(o, x) = {})
       THEN "replacement-without-fee-increase-at-full-pool"
  ELSE IF \E x \in old : ok /\ Where(o, x) # {} THEN "replaced-still-pooled"
  ELSE IF \E x \in ListAll(pre) \ ListAll(o) : x \in o.all \/ x \in ToSet(o.feeQ) THEN "evicted-still-pooled"
  ELSE IF Cardinality(o.all) > cfg.max THEN "over-capacity-pool"
  ELSE IF Cardinality(o.list[s]) > cfg.acc THEN "over-capacity-sender"
  ELSE IF ~ok /\ t \notin pre.all /\ Prio(t) >= cfg.minp /\ v # "invalid" /\ ~PoolFull(cfg, pre)
          /\ ~SenderFull(cfg, pre, s) /\ old = {} THEN "rejected-without-reason"
  ELSE IF ~ok /\ ~PoolFull(cfg, pre) /\ Canon(o) # Canon(pre) THEN "rejected-but-state-changed"
  ELSE "other"

AddChecks(e, o) ==
  LET t == T(e.t)  v == verd[e.t]  ok == e.res = 1  s == t.sender
      old == At(pre, s, t.nonce) \ {t}
      left == ListTxs(pre, s) \ (ListTxs(o, s) \cup old)
      \* environment answer of conn.Publish; the announcement handler (via = "announce") reports no result at all
      pubok == ~(Has(e, "pub") /\ e.pub = "fail") /\ ~(Has(e, "via") /\ e.via = "announce")
  IN
  \* a replaced transaction is gone from every index
  /\ \A x \in old : (ok /\ t \in ListTxs(o, s)) => \A w \in Where(o, x) : Report("stale-after-replacement", w)
  \* whatever else left the sender's list (per-sender limit) is gone from the other indexes as well
  /\ \A x \in left : \A w \in Where(o, x) : Report("stale-after-sender-eviction", w)
  /\ IF ~IndexesAgree(pre) THEN TRUE
     ELSE IF [st |-> Canon(o), ok |-> ok] \in {[st |-> Canon(r.st), ok |-> r.ok] : r \in AddSuccPub(cfg, pre, t, v, pubok)}
     THEN NoteUnless(AddDiag(o, t, v, ok) # "rejected-without-reason", "rejected-without-reason", "")
     ELSE Report("not-a-successor:add", AddDiag(o, t, v, ok))

RemoveChecks(e, o) ==
  LET t == T(e.t)  ok == e.res = 1 IN
  IF ~IndexesAgree(pre) THEN TRUE
  ELSE IF [st |-> Canon(o), ok |-> ok] \in {[st |-> Canon(r.st), ok |-> r.ok] : r \in RemoveSucc(pre, t)} THEN TRUE
  ELSE Report("not-a-successor:remove",
              IF ok /\ t \notin pre.all THEN "removed-unknown"
              ELSE IF ~ok /\ t \in pre.all THEN "not-removed"
              ELSE IF Where(o, t) # {} THEN "still-pooled"
              ELSE "other")

CallsOK(cs) == {T(cs[i].t) : i \in {j \in 1..Len(cs) : cs[j].v # "invalid"}}
CallsBad(cs) == {T(cs[i].t) : i \in {j \in 1..Len(cs) : cs[j].v = "invalid"}}
ProcOf(st, s) == {x \in ProcTxs(st) : x.sender = s}

ReorgDiag(o, s) ==
  IF \E x \in (ProcTxs(o) \ ProcTxs(pre)) : x.sender = s /\ verd[x.id] = "invalid" THEN "promoted-invalid"
  ELSE IF ListTxs(o, s) # ListTxs(pre, s) /\ \A x \in RunTxs(pre, s) : verd[x.id] # "invalid" THEN "dropped-without-invalid-answer"
  ELSE IF \E x \in ProcOf(o, s) \cap ProcOf(pre, s) : x \in RunTxs(pre, s) /\ verd[x.id] = "invalid" THEN "invalid-stays-processable"
  ELSE "other"

\* one complete promotion step of sender s between pre and o
ReorgSenderChecks(o, s, ans) ==
  IF \E r \in ReorgSenderSucc(pre, s, ans) : r.st.list[s] = o.list[s] /\ r.st.proc[s] = o.proc[s]
  THEN LET full == ReorgSenderFull(pre, s, ans) IN
       NoteUnless((full.list[s] = o.list[s] /\ full.proc[s] = o.proc[s]) \/ ~IsPrefixState(pre, s),
                  "reorg-step-not-maximal", "")
  ELSE Report("not-a-successor:reorg", ReorgDiag(o, s))

ReorgChecks(e, o) ==
  LET ans == [t \in Txs |-> verd[t.id]] IN
  \* every newly processable transaction was verified in this step and not answered invalid
  /\ Chk((ProcTxs(o) \ ProcTxs(pre)) \subseteq CallsOK(e.calls), "processable-unverified", "")
  /\ IF ~IndexesAgree(pre) THEN TRUE
     ELSE \A s \in Senders : ReorgSenderChecks(o, s, ans)

(* ------------------- a promotion step observed in two halves --------------- *)
\* What ONE promotion step of sender s, which read the sender's list in state s0 and has made the verifier calls cs so
\* far, may have done to the list between the observations b and o (other calls ran in between, the step itself may not
\* be complete yet).  Safety only:
\*   - whatever became processable was asked in THIS step and not answered invalid (the very transaction: identity,
\*     not nonce - a replacement that arrived meanwhile was never shown to the verifier),
\*   - whatever left the list is a transaction of the run the step read, from its first invalid answer on,
\*   - a promotion step adds nothing.
PartialStep(s, s0, b, o, cs) ==
  LET run == Run(s0, s)
      badIdx == {i \in 1..Len(run) : TxAt(s0, s, run[i]) \in CallsBad(cs)}
      suffix == IF badIdx = {} THEN {} ELSE {TxAt(s0, s, run[i]) : i \in SetMin(badIdx)..Len(run)}
  IN /\ Chk((ProcOf(o, s) \ ProcOf(b, s)) \subseteq CallsOK(cs), "processable-unverified", "")
     /\ Chk((ListTxs(b, s) \ ListTxs(o, s)) \subseteq suffix, "not-a-successor:reorg", "dropped-without-invalid-answer")
     /\ Chk(ListTxs(o, s) \subseteq ListTxs(b, s), "not-a-successor:reorg", "added-by-promotion")

Unchanged(s, b, o) == Chk(o.list[s] = b.list[s] /\ o.proc[s] = b.proc[s], "not-a-successor:reorg", "other-sender-changed")

\* sender whose goroutine the harness holds inside the verifier: the pause-th call of the step
Suspended(cs, pause) == IF pause >= 1 /\ pause <= Len(cs) THEN T(cs[pause].t).sender ELSE 0

IlvChecks(e, o) ==
  IF ~IndexesAgree(pre) \/ (Has(e, "merged") /\ e.merged = 1) THEN TRUE
  ELSE IF e.phase = "suspended" THEN
    \* every sender but the suspended one has completed its step
    LET ans == [t \in Txs |-> verd[t.id]]  sp == Suspended(e.calls, e.pause) IN
    \A s \in Senders : IF s = sp THEN PartialStep(s, pre, pre, o, e.calls) ELSE ReorgSenderChecks(o, s, ans)
  ELSE
    LET cs == aux.calls \o e.calls  sp == Suspended(aux.calls, e.pause) IN
    \A s \in Senders :
      IF s = sp
      THEN /\ PartialStep(s, aux.s0, pre, o, cs)
           \* the step is complete: nothing it was told is invalid is processable
           /\ Chk(ProcOf(o, s) \cap CallsBad(cs) = {}, "not-a-successor:reorg", "invalid-stays-processable")
      ELSE Unchanged(s, pre, o)

(* ------------------------- concurrent run at quiescence ------------------- *)
\* one value a read returned while the goroutines were running: r = [op, res]
ReadResultChecks(r, att) ==
  LET ids == SeqSet(r.res) IN
  IF 0 \in ids THEN Report("read-result", r.op \o "-nil-or-unknown-entry")
  ELSE LET txs == IdSet(r.res) IN
       /\ Chk(Len(r.res) = Cardinality(ids), "read-result", r.op \o "-duplicate-entry")
       /\ Chk(txs \subseteq att, "read-result", r.op \o "-never-added")
       /\ IF r.op # "getprocessable" THEN TRUE
          ELSE \A s \in Senders :
                 LET mine == {x \in txs : x.sender = s}  ns == {x.nonce : x \in mine} IN
                 Chk(ns = {} \/ (Cardinality(ns) = Cardinality(mine) /\ ns = SetMin(ns)..SetMax(ns)),
                     "read-result", "getprocessable-not-a-run")

ConcChecks(e, o) ==
  IF ~Has(e, "added") THEN TRUE
  ELSE
  LET added == IdSet(e.added)  att == IdSet(e.attempted)  rem == IdSet(e.removes)  inv == IdSet(e.inval)
      \* accepted, no Remove was ever issued for it, no transaction of its sender at or below its nonce was ever
      \* answered invalid: in the profile without evictions and replacements nothing may take it out of the pool
      mustStay == {x \in added : x \notin rem /\ ~\E y \in inv : y.sender = x.sender /\ y.nonce <= x.nonce}
  IN /\ Chk(o.all \subseteq added, "not-a-successor:conc", "pooled-but-never-accepted")
     /\ IF e.profile # "plain" THEN TRUE
        ELSE /\ Chk(mustStay \subseteq o.all, "not-a-successor:conc", "lost-transaction")
             /\ Note("conc-must-stay", ToString(Cardinality(mustStay)))
     /\ \A i \in 1..Len(e.reads) : ReadResultChecks(e.reads[i], att)

ReadChecks(e, o) ==
  /\ Chk(Canon(o) = Canon(pre), "not-a-successor:read", e.op)
  /\ CASE e.op = "get" -> Chk((e.res = 1) = (T(e.t) \in o.all), "index-disagree", "Get-vs-allTransactions")
       [] e.op = "getall" -> Chk({T(e.res[i]) : i \in 1..Len(e.res)} = o.all /\ Len(e.res) = Cardinality(o.all),
                                 "index-disagree", "GetAll-vs-allTransactions")
       [] e.op = "getprocessable" ->
            IF 0 \in SeqSet(e.res) THEN Report("index-disagree", "GetProcessable-nil-entry")
            ELSE Chk({T(e.res[i]) : i \in 1..Len(e.res)} = ProcTxs(o) /\ Len(e.res) = Cardinality(ProcTxs(o)),
                     "index-disagree", "GetProcessable-vs-processables")

BlockedDetail(e) ==
  CASE e.op = "add" -> IF PoolFull(cfg, pre) THEN "Add-when-full" ELSE "Add"
    [] e.op = "remove" -> "Remove"
    [] e.op = "reorg" -> "Reorg"
    [] e.op = "ilv" -> "Reorg-interleaved"
    [] e.op = "concurrent" -> "concurrent"
    [] e.op = "snapshot" -> "Snapshot"
    [] e.op = "end" -> "End"
    [] e.op = "startexit" -> "Start-after-End"
    [] OTHER -> e.op

TInit == l = 1 /\ pre = Empty /\ cfg = [max |-> 1, acc |-> 1, diff |-> 1, minp |-> 0]
         /\ verd = [i \in 1..Len(TxTab) |-> "ok"] /\ aux = [s0 |-> Empty, calls |-> <<>>]
         /\ Init                       \* the variables of the exhaustive model are not used by the monitor

Step ==
  LET e == Ev IN
  IF e.op = "universe" \/ e.op = "intent" THEN UNCHANGED <<pre, cfg, verd, aux>>
  ELSE IF e.op = "reset" THEN
    /\ cfg' = [max |-> e.max, acc |-> e.acc, diff |-> e.diff, minp |-> e.minp]
    /\ pre' = Empty /\ verd' = [i \in 1..Len(TxTab) |-> "ok"] /\ aux' = [s0 |-> Empty, calls |-> <<>>]
  ELSE IF e.op = "verdict" THEN
    /\ verd' = [verd EXCEPT ![e.t] = e.v] /\ UNCHANGED <<pre, cfg, aux>>
  ELSE IF Has(e, "blocked") /\ e.blocked = 1 THEN
    /\ Report("operation-blocked", BlockedDetail(e)) /\ UNCHANGED <<pre, cfg, verd, aux>>
  ELSE IF Has(e, "panic") /\ e.panic # "" THEN
    /\ Report("panic", e.op) /\ UNCHANGED <<pre, cfg, verd, aux>>
  ELSE IF e.op = "recheck" THEN
    \* a value handed out by an earlier read (was) and the same value read again now, after later calls
    /\ Chk(e.was = e.now, "returned-value-mutated", e.of) /\ UNCHANGED <<pre, cfg, verd, aux>>
  ELSE IF e.op = "startexit" THEN UNCHANGED <<pre, cfg, verd, aux>>
  ELSE
    LET o == Obs(e.snap) IN
    /\ RawChecks(e.snap)
    /\ InvChecks(o)
    /\ IF Has(e, "disturbed") /\ e.disturbed = 1 THEN TRUE    \* a ticker step ran during the call: invariants only
       ELSE CASE e.op = "add" -> AddChecks(e, o)
         [] e.op = "remove" -> RemoveChecks(e, o)
         [] e.op = "reorg" -> ReorgChecks(e, o)
         [] e.op \in {"get", "getall", "getprocessable"} -> ReadChecks(e, o)
         [] e.op = "ilv" -> IlvChecks(e, o)
         [] e.op = "concurrent" -> ConcChecks(e, o)
         [] e.op = "end" -> Chk(Canon(o) = Canon(pre), "not-a-successor:end", "")
         [] OTHER -> TRUE
    /\ pre' = o /\ UNCHANGED <<cfg, verd>>
    /\ aux' = IF e.op = "ilv" /\ e.phase = "suspended" THEN [s0 |-> pre, calls |-> e.calls] ELSE aux

TNext == l <= Len(TraceLog) /\ Step /\ l' = l + 1 /\ UNCHANGED vars
TSpec == TInit /\ [][TNext]_<<tvars, vars>>
=============================================================================
