--------------------------- MODULE StagedStoreTrace ---------------------------
(***************************************************************************)
(* Monitor for traces of the real diffdb.Database / db.DB (C12).           *)
(* Every line is one public call with its arguments and result.  Writes    *)
(* update the model; every read result is compared with the result of the  *)
(* same read on the model (StagedStore.tla).  A differing result does not   *)
(* stop the monitor (reads do not change state): it is printed as          *)
(* <<"MISMATCH", line, op, expected>> so that the rest of the trace is      *)
(* still checked.  db dumps after Commit / RevertDiff must equal the model. *)
(***************************************************************************)
EXTENDS StagedStore, Json

CONSTANT TraceFile
TraceLog == ndJsonDeserialize(TraceFile)

VARIABLES l, db, eff, snaps, prev
tvars == <<l, db, eff, snaps, prev>>

Ev == TraceLog[l]
ToMap(s) == {<<s[i][1], s[i][2]>> : i \in 1..Len(s)}
Norm(s) == [i \in 1..Len(s) |-> <<s[i][1], s[i][2]>>]
B(b) == IF b THEN 1 ELSE 0

Report(op, exp) == PrintT(<<"MISMATCH", l, op, ToJson(exp)>>)
Check(op, got, exp) == IF got = exp THEN TRUE ELSE Report(op, exp)

TInit == l = 1 /\ db = {} /\ eff = {} /\ snaps = <<>> /\ prev = {}

Step ==
  LET e == Ev p == IF "view" \in DOMAIN e THEN e.view ELSE <<>> IN
  CASE e.op = "reset" ->
         /\ db' = ToMap(e.db) /\ eff' = ToMap(e.db) /\ snaps' = <<>> /\ prev' = ToMap(e.db)
    [] e.op = "set" ->
         /\ eff' = Put(eff, p \o e.k, e.v) /\ UNCHANGED <<db, snaps, prev>>
    [] e.op = "del" ->
         /\ eff' = Rem(eff, p \o e.k) /\ UNCHANGED <<db, snaps, prev>>
    [] e.op = "get" ->
         /\ Check("get", e.res, GetR(eff, p, e.k)) /\ UNCHANGED <<db, eff, snaps, prev>>
    [] e.op = "has" ->
         /\ Check("has", e.res, B(GetR(eff, p, e.k) # -1)) /\ UNCHANGED <<db, eff, snaps, prev>>
    [] e.op = "range" ->
         /\ Check("range", Norm(e.res), RangeR(eff, p, e.s, e.e, e.limit, e.rev = 1))
         /\ UNCHANGED <<db, eff, snaps, prev>>
    [] e.op = "iter" ->
         /\ Check("iter", Norm(e.res), IterR(eff, p, e.q, e.limit, e.rev = 1))
         /\ UNCHANGED <<db, eff, snaps, prev>>
    [] e.op = "dbrange" ->     \* raw db.IterateRange / Reader.IterateRange on the committed contents
         /\ Check("dbrange", Norm(e.res), RangeR(db, <<>>, e.s, e.e, e.limit, e.rev = 1))
         /\ UNCHANGED <<db, eff, snaps, prev>>
    [] e.op = "dbiter" ->
         /\ Check("dbiter", Norm(e.res), IterR(db, <<>>, e.q, e.limit, e.rev = 1))
         /\ UNCHANGED <<db, eff, snaps, prev>>
    [] e.op = "snap" ->
         \* a new snapshot gets an id no live snapshot has (or it would silently replace that snapshot's saved state)
         /\ Check("snapshot-id-reused", B(e.id \in DOMAIN snaps), 0)
         /\ snaps' = (e.id :> eff) @@ snaps /\ UNCHANGED <<db, eff, prev>>
    [] e.op = "restore" ->
         /\ Check("restore-err", e.err, B(e.id \notin DOMAIN snaps))
         /\ IF e.id \in DOMAIN snaps
            THEN eff' = snaps[e.id] /\ snaps' = [i \in DOMAIN snaps \ {e.id} |-> snaps[i]]
            ELSE UNCHANGED <<eff, snaps>>
         /\ UNCHANGED <<db, prev>>
    [] e.op = "delsnap" ->
         /\ snaps' = [i \in DOMAIN snaps \ {e.id} |-> snaps[i]] /\ UNCHANGED <<db, eff, prev>>
    [] e.op = "commit" ->      \* Commit + db.Write; the dump of the database must equal eff
         /\ Check("commit-dump", ToMap(e.dump), eff)
         \* the returned diff may list no-op updates; what is required is that its reversal restores db
         /\ Check("commit-diff-reversal",
                  Revert(eff, [added |-> {x : x \in Range(e.added)}, updated |-> ToMap(e.updated), deleted |-> ToMap(e.deleted)]), db)
         /\ Assert(DiffSound(db, eff), "spec: diff reversal")
         /\ prev' = db /\ db' = eff /\ snaps' = <<>> /\ UNCHANGED eff
    [] e.op = "revert" ->      \* RevertDiff of the last commit + db.Write
         /\ Check("revert-dump", ToMap(e.dump), prev)
         /\ db' = prev /\ eff' = prev /\ snaps' = <<>> /\ UNCHANGED prev

TNext == l <= Len(TraceLog) /\ Step /\ l' = l + 1
TSpec == TInit /\ [][TNext]_tvars
=============================================================================
