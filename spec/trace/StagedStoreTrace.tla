--------------------------- MODULE StagedStoreTrace ---------------------------
(***************************************************************************)
(* Monitor for traces of the real diffdb.Database / db.DB (C12).           *)
(* Every line is one public call with its arguments and result.  Writes    *)
(* update the model; every read result is compared with the result of the  *)
(* same read on the model (StagedStore.tla).  A differing result does not   *)
(* stop the monitor (reads do not change state): it is printed as          *)
(* <<"MISMATCH", line, op, expected>> so that the rest of the trace is      *)
(* still checked.  db dumps after Commit / RevertDiff must equal the model. *)
(*                                                                         *)
(* Snapshots: see StagedStore.tla.  `sure` = snapshots whose restore may    *)
(* not fail, `dead` = deleted ones.  A restore that succeeds on a deleted   *)
(* id has no defined result: the monitor stops comparing until the next     *)
(* reset (`havoc`, reported as <<"HAVOC", line>>).                          *)
(***************************************************************************)
EXTENDS StagedStore, Json

CONSTANT TraceFile
TraceLog == ndJsonDeserialize(TraceFile)

VARIABLES l, db, eff, snaps, prev, sure, dead, cnt, havoc,
          held    \* snapshots the caller still holds: taken, neither deleted nor restored (their ids must not be handed out again)
tvars == <<l, db, eff, snaps, prev, sure, dead, cnt, havoc, held>>

Ev == TraceLog[l]
ToMap(s) == {<<s[i][1], s[i][2]>> : i \in 1..Len(s)}
Norm(s) == [i \in 1..Len(s) |-> <<s[i][1], s[i][2]>>]
B(b) == IF b THEN 1 ELSE 0

Report(op, exp) == PrintT(<<"MISMATCH", l, op, ToJson(exp)>>)
Check(op, got, exp) == IF havoc \/ got = exp THEN TRUE ELSE Report(op, exp)

TInit == l = 1 /\ db = {} /\ eff = {} /\ snaps = <<>> /\ prev = {} /\ sure = {} /\ dead = {} /\ cnt = 0 /\ havoc = FALSE /\ held = {}

NoSnaps == snaps' = <<>> /\ sure' = {} /\ dead' = {} /\ held' = {}
SnapsUnchanged == UNCHANGED <<snaps, sure, dead, cnt, havoc, held>>

Step ==
  LET e == Ev
      p == IF "view" \in DOMAIN e THEN e.view ELSE <<>>
      k == SnapKey(IF "obj" \in DOMAIN e THEN e.obj ELSE 0, IF "id" \in DOMAIN e THEN e.id ELSE 0) IN
  CASE e.op = "reset" ->
         /\ db' = ToMap(e.db) /\ eff' = ToMap(e.db) /\ prev' = ToMap(e.db)
         /\ NoSnaps /\ cnt' = 0 /\ havoc' = FALSE
    [] e.op = "set" ->
         /\ eff' = Put(eff, p \o e.k, e.v) /\ UNCHANGED <<db, prev>> /\ SnapsUnchanged
    [] e.op = "del" ->
         /\ eff' = Rem(eff, p \o e.k) /\ UNCHANGED <<db, prev>> /\ SnapsUnchanged
    [] e.op = "get" ->
         /\ Check("get", e.res, GetR(eff, p, e.k)) /\ UNCHANGED <<db, eff, prev>> /\ SnapsUnchanged
    [] e.op = "has" ->
         /\ Check("has", e.res, B(GetR(eff, p, e.k) # -1)) /\ UNCHANGED <<db, eff, prev>> /\ SnapsUnchanged
    [] e.op = "range" ->
         /\ Check("range", Norm(e.res), RangeR(eff, p, e.s, e.e, e.limit, e.rev = 1))
         /\ UNCHANGED <<db, eff, prev>> /\ SnapsUnchanged
    [] e.op = "iter" ->
         /\ Check("iter", Norm(e.res), IterR(eff, p, e.q, e.limit, e.rev = 1))
         /\ UNCHANGED <<db, eff, prev>> /\ SnapsUnchanged
    [] e.op = "dbrange" ->     \* raw db.IterateRange / Reader.IterateRange on the committed contents
         /\ Check("dbrange", Norm(e.res), RangeR(db, <<>>, e.s, e.e, e.limit, e.rev = 1))
         /\ UNCHANGED <<db, eff, prev>> /\ SnapsUnchanged
    [] e.op = "dbiter" ->      \* raw db.Iterate / Reader.Iterate
         /\ Check("dbiter", Norm(e.res), IterR(db, <<>>, e.q, e.limit, e.rev = 1))
         /\ UNCHANGED <<db, eff, prev>> /\ SnapsUnchanged
    [] e.op = "dbiterkey" ->   \* raw db.IterateKey / Reader.IterateKey: the keys of the same iteration
         /\ Check("dbiterkey", e.res, KeysOf(IterR(db, <<>>, e.q, e.limit, e.rev = 1)))
         /\ UNCHANGED <<db, eff, prev>> /\ SnapsUnchanged
    [] e.op = "snap" ->
         \* a new snapshot gets an id no live snapshot of that object has (or it would silently replace that snapshot's saved state)
         \* (judged on `held`, not on `sure`: that a younger snapshot MAY fail to restore after an older one was restored does not
         \* make its id free - the caller still holds it, and a restore through it would silently return another snapshot's state)
         /\ Check("snapshot-id-reused", B(k \in held), 0)
         /\ snaps' = (k :> [st |-> eff, n |-> cnt]) @@ snaps
         /\ sure' = sure \cup {k} /\ dead' = dead \ {k} /\ cnt' = cnt + 1 /\ held' = held \cup {k}
         /\ UNCHANGED <<db, eff, prev, havoc>>
    [] e.op = "restore" ->
         IF k \in DOMAIN snaps /\ k \notin dead
         THEN \* restoring a snapshot returns exactly the staged state at the time of the snapshot; it may fail only
              \* for a snapshot that was restored before or that is younger than a restored one
              /\ (IF k \in sure THEN Check("restore-err", e.err, 0) ELSE TRUE)
              /\ IF e.err = 0
                 THEN eff' = snaps[k].st /\ sure' = AfterRestore(sure, snaps, k) /\ held' = held \ {k}
                 ELSE UNCHANGED <<eff, sure, held>>
              /\ UNCHANGED <<db, prev, snaps, dead, cnt, havoc>>
         ELSE \* never taken: nothing to return to, the staged state stays whatever the call answers; deleted: if the call
              \* succeeds all the same, its result is not defined by the property
              /\ havoc' = (havoc \/ (e.err = 0 /\ k \in dead /\ PrintT(<<"HAVOC", l>>)))
              /\ UNCHANGED <<db, eff, prev, snaps, sure, dead, cnt, held>>
    [] e.op = "delsnap" ->
         /\ dead' = dead \cup {k} /\ sure' = sure \ {k} /\ held' = held \ {k}
         /\ UNCHANGED <<db, eff, prev, snaps, cnt, havoc>>
    [] e.op = "commit" ->      \* Commit (through the root or any view) + db.Write; the dump of the database must equal eff
         /\ Check("commit-dump", ToMap(e.dump), eff)
         \* the returned diff may list no-op updates; what is required is that its reversal restores db
         /\ Check("commit-diff-reversal",
                  Revert(eff, [added |-> {x : x \in Range(e.added)}, updated |-> ToMap(e.updated), deleted |-> ToMap(e.deleted)]), db)
         /\ Assert(DiffSound(db, eff), "spec: diff reversal")
         /\ prev' = db /\ db' = eff /\ NoSnaps /\ UNCHANGED <<eff, cnt, havoc>>
    [] e.op = "revert" ->      \* RevertDiff of the last commit (through the root or any view) + db.Write
         /\ Check("revert-dump", ToMap(e.dump), prev)
         /\ db' = prev /\ eff' = prev /\ NoSnaps /\ UNCHANGED <<prev, cnt, havoc>>
    [] e.op = "bcommit" ->     \* Commit into batchdb.NewWithPrefix(db, batch, e.p) + db.Write
         /\ Check("batchdb-commit", ToMap(e.dump), BatchCommit(db, eff, e.root, e.p))
         /\ db' = BatchCommit(db, eff, e.root, e.p) /\ eff' = BatchCommit(db, eff, e.root, e.p)
         /\ prev' = db /\ NoSnaps /\ UNCHANGED <<cnt, havoc>>
    [] e.op = "bget" ->        \* batchdb.Get: the committed value under the batchdb prefix
         /\ Check("batchdb-get", e.res, GetR(db, e.p, e.k)) /\ UNCHANGED <<db, eff, prev>> /\ SnapsUnchanged
    [] e.op = "bftget" ->      \* liskbft GetBFTParameters / GetGeneratorKeys: the entry valid at height e.h
         /\ Check("bft-get", e.res, AtHeight(eff, p, e.h)) /\ UNCHANGED <<db, eff, prev>> /\ SnapsUnchanged
    [] e.op = "bftnext" ->     \* liskbft NextHeightBFTParameters: the first key at or above e.s
         /\ Check("bft-next", e.res, KeysOf(RangeR(eff, p, e.s, <<255, 255, 255, 255>>, 1, FALSE)))
         /\ UNCHANGED <<db, eff, prev>> /\ SnapsUnchanged
    [] e.op = "bftprune" ->    \* liskbft BeforeTransactionsExecute: what must remain in the view (compared by the next range)
         /\ eff' = PruneBelow(eff, p, e.h) /\ UNCHANGED <<db, prev>> /\ SnapsUnchanged
    [] e.op = "flush" ->       \* a commit of which only the listed views are modelled
         /\ Check("commit-dump", ToMap(e.dump), {x \in eff : \E i \in 1..Len(e.views) : HasPrefix(x[1], e.views[i])})
         /\ prev' = db /\ db' = eff /\ NoSnaps /\ UNCHANGED <<eff, cnt, havoc>>

TNext == l <= Len(TraceLog) /\ Step /\ l' = l + 1
TSpec == TInit /\ [][TNext]_tvars
=============================================================================
