------------------------------ MODULE Generator ------------------------------
(***************************************************************************)
(* C15 - generated blocks are valid; a generator never contradicts itself. *)
(* Model of pkg/generator.Generator on top of the engine model Node.tla.   *)
(*                                                                         *)
(* Part (a)  Sel / Select: the admissible payloads of one block for a pool *)
(*   of processable transactions, the verification / execution outcome of  *)
(*   every transaction and a payload size limit:                           *)
(*     - the candidates are the senders' NEXT transactions (lowest nonce   *)
(*       not yet taken), always a candidate of the highest fee priority is *)
(*       taken next (equal priorities: any of them - unspecified);         *)
(*     - a sender is dropped for the rest of the block once one of its     *)
(*       transactions fails verification or execution;                     *)
(*     - the payload never exceeds the size limit.  When the best          *)
(*       candidate does not fit into the remaining size the statement does *)
(*       not say what happens: the generator may stop (what the code does  *)
(*       today) or leave that sender out and go on with the others - both  *)
(*       admissible; if that candidate would also fail, the statement does *)
(*       not say which check comes first: both results admissible.         *)
(*     - outcomes: ok / vf, vp, xf (verification invalid, verification     *)
(*       pending, execution invalid) / xe = executed with result Fail (the *)
(*       transaction STAYS in the block with its events, like ok) / ve, xr *)
(*       = the application call itself returns an error during             *)
(*       verification / execution (the transaction fails: sender dropped). *)
(*     - pools have any number of senders (enumeration: 3, drawn: up to 6).*)
(*   TLC enumerates the pools (SelInit) and prints every case with the     *)
(*   admissible payloads for the limits 1..MaxLimit.                       *)
(*                                                                         *)
(* Part (b)  behaviours of a node that generates with the keys Own:        *)
(*     Forge(g, crash)  g generates at the tip of the current chain; the   *)
(*                      header is [h = tip+1, mhp = the chain's            *)
(*                      maxHeightPrevoted, mhg = NextMhg(g)]; the info     *)
(*                      [h, mhp, mhg] is persisted, then the block is      *)
(*                      handed to consensus; crash = the process dies      *)
(*                      between the two and is restarted                   *)
(*     Recv(v)          a block of another validator extends the chain     *)
(*     RecvChg(v, k)    the same, and the application announces the        *)
(*                      validator set ParamChoices[k] in it (other weights *)
(*                      and a permuted generator list from the next height *)
(*                      on): the generator must take its slots, thresholds *)
(*                      and validatorsHash from the parameters of the      *)
(*                      height it generates                                *)
(*     Switch(k, seq)   fork choice moves the node to a BETTER chain:      *)
(*                      k blocks are removed, the blocks seq of other      *)
(*                      validators are applied (possibly a SHORTER chain   *)
(*                      with a higher maxHeightPrevoted)                   *)
(*     Restart          the node and the generator are re-created on their *)
(*                      databases                                          *)
(*   Environment assumption = LIP-0014 fork choice: the generator only     *)
(*   generates when the current chain is not worse (maxHeightPrevoted,     *)
(*   height) than any chain the node has left (while blocks are being      *)
(*   replaced consensus reports Syncing).  A crash after the hand-off is   *)
(*   C13's subject (block commit is atomic), not modelled here.            *)
(*   Implementation-shape constants (control experiments, DESIGN section 2)*)
(*     MhgRule = "largest"  mhg = max(info.h, info.mhg)   (the statement)  *)
(*               "last"     mhg = info.h                                   *)
(*     PersistFirst = TRUE  info written before the hand-off               *)
(*                                                                         *)
(* Part (c)  ForgeOutputAccepted: the block Forge produces satisfies       *)
(*   Node!Accept in the state in which it is produced.                     *)
(***************************************************************************)
EXTENDS Node

CONSTANTS Own,           \* validators whose keys the generator under test holds
          MaxRecv,       \* longest block sequence applied by one Switch
          MaxSwitch, MaxCrash, MaxGRestart,
          MhgRule, PersistFirst,
          DumpPick,      \* which residue class of script keys is dumped (seeded by the driver)
          SelRanks, SelMaxTx, SelMaxLimit,
          SelOutcomes,   \* part (a): outcomes used by the enumeration (drawn pools may use all of AllOutcomes)
          SelGiven       \* part (a): <<>> = enumerate all pools of at most SelMaxTx transactions; otherwise the sequence of
                         \* pools to evaluate (the driver draws larger pools, up to 3 senders x 3 transactions, from VERIF_SEED)

VARIABLES ginfo,      \* persisted GeneratorInfo per address: [h, mhp, mhg]
          signed,     \* sequence of headers [gen, h, mhp, mhg] handed on (in order)
          lost,       \* headers signed but lost in a crash before the hand-off
          ever,       \* ghost: largest height ever generated per validator (incl. lost)
          abandoned,  \* best (mhp, h) the node's chain had when fork choice left it
          sel         \* part (a): the enumerated pool (<<>> in part (b))
gvars == <<ginfo, signed, lost, ever, abandoned, sel>>
\* Node variables the generator model never changes (temporary blocks, event log, tie-break bookkeeping)
nodeRest == <<temp, evlog, recvKnown>>
allvars == <<vars, gvars>>

(* ============================== part (a) ================================ *)
\* ok / verification fails / verification answers "pending" (nonce gap) / execution answers Invalid /
\* xe: execution answers Fail (included, with its events) / ve, xr: the verification / execution call returns an error
AllOutcomes == {"ok", "vf", "vp", "xf", "xe", "ve", "xr"}
Good(o) == o \in {"ok", "xe"}    \* the transaction goes into the block
Outcomes == SelOutcomes
TxKinds == [r : 1..SelRanks, z : 1..2, o : Outcomes]
SendersOf(pool) == 1..Len(pool)

\* pools: three senders with n1 >= n2 >= n3 transactions (nonce order = sequence order), at most SelMaxTx in total;
\* enumerated by SelSeeds / SelSucc below
RECURSIVE Sel(_, _, _, _, _, _)
\* pos[s]: index of sender s's next transaction; dropped: senders with a failed transaction; used: payload size
Sel(pool, pos, dropped, used, acc, limit) ==
  LET heads == {s \in SendersOf(pool) : s \notin dropped /\ pos[s] <= Len(pool[s])}
      Rank(s) == pool[s][pos[s]].r
      top == {s \in heads : \A t \in heads : Rank(s) >= Rank(t)}
      Take(s) ==
        LET tx == pool[s][pos[s]]
            fits == used + tx.z <= limit
            drop == Sel(pool, pos, dropped \cup {s}, used, acc, limit)
        IN IF Good(tx.o)
           THEN (IF fits THEN Sel(pool, [pos EXCEPT ![s] = @ + 1], dropped, used + tx.z, Append(acc, <<s, pos[s]>>), limit)
                 ELSE {acc} \cup drop)      \* does not fit: stop, or leave this sender out and go on (statement silent)
           ELSE (IF fits THEN drop ELSE {acc} \cup drop)
  IN IF heads = {} THEN {acc} ELSE UNION {Take(s) : s \in top}

Select(pool, limit) == Sel(pool, [s \in SendersOf(pool) |-> 1], {}, 0, <<>>, limit)

\* what the statement fixes, as a predicate over a payload (used to cross-check Select)
PayloadSize(pool, p) == LET RECURSIVE Sz(_) Sz(i) == IF i = 0 THEN 0 ELSE pool[p[i][1]][p[i][2]].z + Sz(i - 1) IN Sz(Len(p))
SelSound(pool, limit) ==
  \A p \in Select(pool, limit) :
    /\ PayloadSize(pool, p) <= limit
    /\ \A i \in 1..Len(p) : Good(pool[p[i][1]][p[i][2]].o)
    \* per sender: exactly a prefix of its transactions, in nonce order, none after a failed one
    /\ \A s \in SendersOf(pool) :
         LET mine == SelectSeq(p, LAMBDA e : e[1] = s) IN
         /\ \A i \in 1..Len(mine) : mine[i][2] = i
         /\ \A i \in 1..Len(mine) : \A j \in 1..i : Good(pool[s][j].o)
    \* priority: when a transaction is taken no other sender's next transaction has a higher priority
    /\ \A i \in 1..Len(p) :
         \A s \in SendersOf(pool) \ {p[i][1]} :
           LET cnt == Cardinality({j \in 1..(i - 1) : p[j][1] = s})
               \* s still has a next transaction, nothing of s has failed, that next transaction is a valid one and it
               \* would fit: then it is a candidate at this moment and must not have a higher priority than the one taken
               alive == cnt < Len(pool[s]) /\ \A j \in 1..(cnt + 1) : Good(pool[s][j].o)
               wouldFit == PayloadSize(pool, SubSeq(p, 1, i - 1)) + pool[s][cnt + 1].z <= limit
           IN (alive /\ wouldFit) => pool[s][cnt + 1].r <= pool[p[i][1]][p[i][2]].r

SelCase(pool) == [pool |-> pool, exp |-> [l \in 1..SelMaxLimit |-> SetToSeq(Select(pool, l))]]

(* ============================== part (b) ================================ *)
Others == Validators \ Own
NoInfo == [h |-> 0, mhp |-> 0, mhg |-> 0]
Cur == [mhp |-> V.mhpv, h |-> Tip.h]

NextMhg(g) == IF MhgRule = "largest" THEN Max2(ginfo[g].h, ginfo[g].mhg) ELSE ginfo[g].h

\* next slot after `after` in which v is the generator for height h
SlotFor(votes, h, after, v) ==
  LET n == Len(ParamsAt(votes.gkeys, h).gens) IN
  CHOOSE s \in (after + 1)..(after + n) : GenAt(votes, h, s) = v
CanGenerate(votes, h, v) == \E i \in 1..Len(ParamsAt(votes.gkeys, h).gens) : ParamsAt(votes.gkeys, h).gens[i] = v

EmptyAC(votes) == [h |-> votes.cert, kind |-> "empty", signers |-> {}]
Cand(h, slot, g, mhp, mhg, ac) ==
  [version |-> 2, h |-> h, prev |-> "tip", slot |-> slot, gen |-> g, signer |-> g, sig |-> "ok", mhp |-> mhp, mhg |-> mhg, ac |-> ac,
   txRoot |-> "ok", assetRoot |-> "ok", eventRoot |-> "ok", stateRoot |-> "ok", vhash |-> "ok", txStatic |-> "ok", payload |-> "ok",
   chg |-> 0, ntx |-> 0, mut |-> "none"]

\* the block the generator under test produces for g at the current tip
ForgeCand(g) == Cand(Tip.h + 1, SlotFor(V, Tip.h + 1, Tip.slot, g), g, V.mhpv, NextMhg(g), EmptyAC(V))
ForgeEnabled(g) ==
  /\ g \in Own /\ Len(chain) < MaxLen /\ Len(script) < MaxSteps
  /\ CanGenerate(V, Tip.h + 1, g)
  /\ ~Better(abandoned, Cur)

\* an honest block of another validator on top of (ch, vs): mhg = the largest height it generated on that chain
LastForgedOn(ch, v) ==
  LET hs == {ch[i].h : i \in {j \in 1..Len(ch) : ch[j].gen = v}} IN IF hs = {} THEN 0 ELSE CHOOSE x \in hs : \A y \in hs : y <= x
TipOf(ch) == IF Len(ch) = 0 THEN [h |-> 0, slot |-> 0] ELSE ch[Len(ch)]
OtherCand(ch, vs, v) ==
  LET votes == vs[Len(vs)] t == TipOf(ch) IN
  Cand(t.h + 1, SlotFor(votes, t.h + 1, t.slot, v), v, votes.mhpv, LastForgedOn(ch, v), EmptyAC(votes))
Entry(c) == [h |-> c.h, slot |-> c.slot, gen |-> c.gen, mhg |-> c.mhg, mhp |-> c.mhp, chg |-> c.chg, ntx |-> c.ntx]

RECURSIVE ApplySeq(_, _, _, _)
\* apply honest blocks of the validators in seq; result [ch, vs, steps]
ApplySeq(ch, vs, seq, steps) ==
  IF seq = <<>> THEN [ch |-> ch, vs |-> vs, steps |-> steps]
  ELSE LET c == OtherCand(ch, vs, Head(seq))
           ch2 == Append(ch, Entry(c))
           vs2 == Append(vs, Apply(vs[Len(vs)], Hdr(c)))
           f2 == Max2(fin, vs2[Len(vs2)].mhpc)
       IN ApplySeq(ch2, vs2, Tail(seq), Append(steps, Step(c, TRUE, ch2, vs2, f2, {}, <<>>, <<>>)))

HdrOf(c) == [gen |-> c.gen, h |-> c.h, mhp |-> c.mhp, mhg |-> c.mhg]
NCrash == Cardinality({i \in 1..Len(script) : script[i].op = "forge" /\ script[i].crash})
NSwitch == Cardinality({i \in 1..Len(script) : script[i].op = "switch"})
NRestarts == Cardinality({i \in 1..Len(script) : script[i].op = "restart"})

ForgeStep(c, crash, handed, ch, vs, f) ==
  [op |-> "forge", gen |-> c.gen, crash |-> crash, handed |-> handed, h |-> c.h, mhg |-> c.mhg, mhp |-> c.mhp,
   info |-> [h |-> c.h, mhp |-> c.mhp, mhg |-> c.mhg], obs |-> Obs(ch, vs, f, {}, <<>>)]

Forge(g, crash) ==
  /\ ForgeEnabled(g)
  /\ crash => NCrash < MaxCrash
  /\ LET c == ForgeCand(g)
         persisted == PersistFirst \/ ~crash       \* the info write happened before the process died
         handed == ~crash \/ ~PersistFirst         \* the block reached consensus before the process died
         v2 == AfterBlock(c)
         f2 == Max2(fin, v2.mhpc)
     IN /\ ginfo' = IF persisted THEN [ginfo EXCEPT ![g] = [h |-> c.h, mhp |-> c.mhp, mhg |-> c.mhg]] ELSE ginfo
        /\ ever' = [ever EXCEPT ![g] = Max2(@, c.h)]
        /\ IF handed
           THEN /\ signed' = Append(signed, HdrOf(c))
                /\ lost' = lost
                /\ chain' = Append(chain, Entry(c))
                /\ vstack' = Append(vstack, v2)
                /\ fin' = f2
           ELSE /\ lost' = lost \cup {HdrOf(c)}
                /\ UNCHANGED <<signed, chain, vstack, fin>>
        /\ script' = Append(script, ForgeStep(c, crash, handed, chain', vstack', fin'))
        /\ UNCHANGED <<nodeRest, abandoned, sel>>

Recv(v) ==
  /\ v \in Others /\ Len(chain) < MaxLen /\ Len(script) < MaxSteps
  /\ CanGenerate(V, Tip.h + 1, v)
  /\ LET r == ApplySeq(chain, vstack, <<v>>, <<>>) IN
       /\ chain' = r.ch /\ vstack' = r.vs
       /\ fin' = Max2(fin, V'.mhpc)
       /\ script' = Append(script, [r.steps[1] EXCEPT !.op = "recv"])
  /\ UNCHANGED <<nodeRest, ginfo, signed, lost, ever, abandoned, sel>>

\* a block of another validator in which the application announces the validator set ParamChoices[k] (in force from
\* the next height on: other weights / thresholds, another generator list)
RecvChg(v, k) ==
  /\ v \in Others /\ Len(chain) < MaxLen /\ Len(script) < MaxSteps
  /\ k \in 1..Len(ParamChoices) /\ NChg < MaxChg
  /\ CanGenerate(V, Tip.h + 1, v)
  /\ LET c == [OtherCand(chain, vstack, v) EXCEPT !.chg = k]
         v2 == AfterBlock(c)
         ch2 == Append(chain, Entry(c))
         vs2 == Append(vstack, v2)
         f2 == Max2(fin, v2.mhpc)
     IN /\ chain' = ch2 /\ vstack' = vs2 /\ fin' = f2
        /\ script' = Append(script, [Step(c, TRUE, ch2, vs2, f2, {}, <<>>, <<>>) EXCEPT !.op = "recv"])
  /\ UNCHANGED <<nodeRest, ginfo, signed, lost, ever, abandoned, sel>>

RECURSIVE SeqsUpTo(_, _)
SeqsUpTo(S, n) == IF n = 0 THEN {<<>>} ELSE LET sm == SeqsUpTo(S, n - 1) IN sm \cup {Append(q, x) : q \in {y \in sm : Len(y) = n - 1}, x \in S}

Switch(k, seq) ==
  /\ Len(script) < MaxSteps /\ NSwitch < MaxSwitch
  /\ k \in 1..(Len(chain) - fin) /\ Len(seq) >= 1 /\ Len(chain) - k + Len(seq) <= MaxLen
  /\ LET ch0 == SubSeq(chain, 1, Len(chain) - k)
         vs0 == SubSeq(vstack, 1, Len(vstack) - k)
         r == ApplySeq(ch0, vs0, seq, <<>>)
         new == [mhp |-> r.vs[Len(r.vs)].mhpv, h |-> Len(r.ch)]
     IN /\ Better(new, Cur)                      \* fork choice: only to a strictly better chain
        /\ chain' = r.ch /\ vstack' = r.vs
        /\ fin' = Max2(fin, r.vs[Len(r.vs)].mhpc)
        /\ abandoned' = IF Better(Cur, abandoned) THEN Cur ELSE abandoned
        /\ script' = Append(script, [op |-> "switch", del |-> k, blocks |-> r.steps, shorter |-> Len(r.ch) < Len(chain),
                                     obs |-> Obs(chain', vstack', fin', {}, <<>>)])
  /\ UNCHANGED <<nodeRest, ginfo, signed, lost, ever, sel>>

GRestart ==
  /\ Len(script) < MaxSteps /\ Len(script) > 0 /\ NRestarts < MaxGRestart
  /\ script' = Append(script, [op |-> "restart", obs |-> Obs(chain, vstack, fin, {}, <<>>)])
  /\ UNCHANGED <<chain, vstack, fin, nodeRest, ginfo, signed, lost, ever, abandoned, sel>>

GInit ==
  /\ Init
  /\ ginfo = [v \in Validators |-> NoInfo] /\ signed = <<>> /\ lost = {} /\ ever = [v \in Validators |-> 0]
  /\ abandoned = [mhp |-> 0, h |-> 0] /\ sel = <<>>

GNext ==
  \/ \E g \in Own, crash \in BOOLEAN : Forge(g, crash)
  \/ \E v \in Others : Recv(v)
  \/ \E v \in Others, k \in 1..Len(ParamChoices) : RecvChg(v, k)
  \/ \E k \in 1..MaxLen, seq \in SeqsUpTo(Others, MaxRecv) : Switch(k, seq)
  \/ GRestart

GSpec == GInit /\ [][GNext]_allvars

(* ------------------------------ properties ------------------------------- *)
\* no two headers handed on by the same generator contradict (LIP-0014, LiskBFT!Contra)
NoSelfContradiction == \A i, j \in 1..Len(signed) : i < j => ~Contra(signed[i], signed[j])
\* the maxHeightGenerated of the next header is the largest height the generator ever generated
MhgLargestEver == \A g \in Own : NextMhg(g) = ever[g]
\* whatever was handed on (or signed and lost) is covered by the persisted info
PersistedBeforeHandoff == \A g \in Own : Max2(ginfo[g].h, ginfo[g].mhg) >= ever[g]
\* part (c): what Forge produces is a block the same node accepts at that moment
ForgeOutputAccepted == \A g \in Own : ForgeEnabled(g) => Accept(ForgeCand(g))
\* the environment never makes the chain worse at a moment the generator may generate
GStackShape == Len(vstack) = Len(chain) + 1

GComplete == Len(script) = MaxSteps \/ ~ENABLED GNext
NForge == Cardinality({i \in 1..Len(script) : script[i].op = "forge"})
\* Which scripts are printed for the replay on the real generator: those that end with a Forge (the harness runs the
\* last Forge of a script through the unmodified forge() at wall-clock time) and
\*   - contain a Switch to a SHORTER chain followed by at least two Forges of one generator (always printed), or
\*   - fall into the residue class DumpPick of a deterministic key of the script (a sample; the driver derives
\*     DumpPick from VERIF_SEED, so the sample does not depend on worker scheduling).
StepCode(s) ==
  CASE s.op = "forge"  -> 3 + 7 * s.h + 13 * s.mhp + 31 * s.mhg + 17 * s.gen + (IF s.crash THEN 5 ELSE 0)
    [] s.op = "recv"   -> 11 + 19 * s.gen + 23 * s.h + 59 * s.chg
    [] s.op = "switch" -> 29 + 37 * s.del + 41 * Len(s.blocks) + 43 * s.blocks[1].gen + 53 * s.blocks[Len(s.blocks)].gen
    [] OTHER           -> 47
RECURSIVE ScriptSum(_)
ScriptSum(i) == IF i = 0 THEN 0 ELSE (i + 1) * StepCode(script[i]) + 3 * ScriptSum(i - 1)
Critical ==
  \E i \in 1..Len(script) :
     /\ script[i].op = "switch" /\ script[i].shorter
     /\ \E g \in Own : Cardinality({j \in (i + 1)..Len(script) : script[j].op = "forge" /\ script[j].gen = g}) >= 2
\* a Forge strictly below the largest height its generator ever generated (always printed: the harness puts the unmodified
\* forge() there and lets the restarted generator sign the next header)
LowForge == \E i \in 1..Len(script) : script[i].op = "forge" /\ script[i].h < script[i].mhg
\* a validator-set change followed by a Forge (flag for the driver's sample; only configurations with ParamChoices have them)
ChgThenForge ==
  \E i \in 1..Len(script) : /\ script[i].op = "recv" /\ script[i].chg # 0
                             /\ \E j \in (i + 1)..Len(script) : script[j].op = "forge"
\* next[g]: the maxHeightGenerated the NEXT header of g must carry (what a generator restarted after the script reports):
\* the harness appends a restart and one more forge of the last generator to every script ("header only")
GDumpInv == (/\ DumpEvery > 0 /\ Len(script) > 0 /\ script[Len(script)].op = "forge"
             /\ (Critical \/ LowForge \/ ScriptSum(Len(script)) % DumpEvery = DumpPick % DumpEvery))
              => PrintT(<<"DUMP", ToJson([script |-> script, critical |-> Critical, chgforge |-> ChgThenForge,
                                          next |-> [v \in Validators |-> IF v \in Own THEN NextMhg(v) ELSE 0]])>>)

(* ------------------------------ part (a) as a TLC run --------------------- *)
\* Two levels so that TLC's workers share the enumeration: the initial states are seeds (st = 0: the pools of sender 1
\* alone / chunk numbers of the given pools), their successors (st = 1) are the cases; only cases are printed.
SelSeeds ==
  IF SelGiven # <<>> THEN {[st |-> 0, p |-> <<i>>] : i \in 1..8}
  ELSE {[st |-> 0, p |-> <<a, <<>>, <<>>>>] : a \in UNION {[1..n -> TxKinds] : n \in 1..Min2(3, SelMaxTx)}}
SelSucc(seed) ==
  IF SelGiven # <<>>
  THEN {[st |-> 1, p |-> SelGiven[j]] : j \in {k \in 1..Len(SelGiven) : k % 8 = seed.p[1] - 1}}
  ELSE LET a == seed.p[1] IN
       {[st |-> 1, p |-> <<a, b, c>>] :
          b \in UNION {[1..n -> TxKinds] : n \in 0..Min2(Len(a), SelMaxTx - Len(a))},
          c \in UNION {[1..n -> TxKinds] : n \in 0..Min2(Len(a), SelMaxTx - Len(a))}}
SelInit ==
  /\ Init
  /\ ginfo = [v \in Validators |-> NoInfo] /\ signed = <<>> /\ lost = {} /\ ever = [v \in Validators |-> 0]
  /\ abandoned = [mhp |-> 0, h |-> 0]
  /\ sel \in SelSeeds
SelNext ==
  /\ sel.st = 0
  /\ sel' \in {x \in SelSucc(sel) : SelGiven # <<>> \/ (Len(x.p[3]) <= Len(x.p[2]) /\ Len(x.p[1]) + Len(x.p[2]) + Len(x.p[3]) <= SelMaxTx)}
  /\ UNCHANGED <<vars, ginfo, signed, lost, ever, abandoned>>
SelSoundInv == sel.st = 1 => \A l \in 1..SelMaxLimit : SelSound(sel.p, l) /\ Select(sel.p, l) # {}
SelDumpInv == sel.st = 1 => PrintT(<<"DUMP", ToJson(SelCase(sel.p))>>)
=============================================================================
