---------------------------- MODULE LiskBFTTree ----------------------------
(***************************************************************************)
(* Fork-tree model of Lisk-BFT finality (property C01).                    *)
(* The state is a tree of block headers; every block carries the vote      *)
(* state obtained by pushing its root->block header chain through Apply,   *)
(* i.e. what a node whose tip is that block stores.  Honest validators     *)
(* sign only non-contradicting headers; Byzantine validators may forge     *)
(* anywhere with any maxHeightGenerated, but every block is branch-valid   *)
(* (maxHeightPrevoted equals the parent's value, no contradiction inside   *)
(* the parent's window) - the two rules verifyBlock enforces.              *)
(* Block ids are structural (the path of <<gen, mhg, chg>> from genesis)   *)
(* so that different creation orders of the same tree merge.               *)
(***************************************************************************)
EXTENDS LiskBFT, Json, SequencesExt

CONSTANTS Win,          \* vote window length (3 * batch size)
          Byz,          \* set of Byzantine validators
          InitW,        \* initial weights: sequence over Validators
          InitPCT,      \* initial precommit threshold
          ParamChoices, \* sequence of [pcT, certT, w] a block may switch to (may be empty)
          MaxChg,       \* max number of parameter-changing blocks in the tree
          MaxBlocks, MaxHeight, MaxLeaves,
          HonestMode,   \* "protocol": LIP-0014 behaviour;  "noncontra": any non-contradicting header
          DumpEvery,    \* 0: no dumps; k>0: print about 1/k of the full trees without finality as JSON
          DumpFinalEvery \* k>0: print about 1/k of the full trees in which some view finalised a block

VARIABLES blocks, tip, maxGen
vars == <<blocks, tip, maxGen>>

Honest == Validators \ Byz

Genesis ==
  LET v0 == GenesisVotes(0, Win)
      v1 == SetParams(v0, InitPCT, InitPCT, InitW)
  IN [id |-> <<>>, h |-> 0, gen |-> 0, mhg |-> 0, mhp |-> 0, chg |-> 0, votes |-> v1]

Blk(id) == CHOOSE b \in blocks : b.id = id
Children(p) == {b \in blocks : b.h = p.h + 1 /\ SubSeq(b.id, 1, p.h) = p.id}
Leaves == {b \in blocks : Children(b) = {}}
LeavesOK(p) == Children(p) = {} \/ Cardinality(Leaves) < MaxLeaves
NChg == Cardinality({b \in blocks : b.chg # 0})

MkBlock(p, g, mhg, chg) ==
  LET hdr == [h |-> p.h + 1, gen |-> g, mhg |-> mhg, mhp |-> p.votes.mhpv, acH |-> 0, acNonEmpty |-> FALSE]
      v1 == Apply(p.votes, hdr)
      v2 == IF chg = 0 THEN v1 ELSE SetParams(v1, ParamChoices[chg].pcT, ParamChoices[chg].certT, ParamChoices[chg].w)
  IN [id |-> Append(p.id, <<g, mhg, chg>>), h |-> hdr.h, gen |-> g, mhg |-> mhg, mhp |-> hdr.mhp,
      chg |-> chg, votes |-> v2]

Hdr(b) == [h |-> b.h, gen |-> b.gen, mhg |-> b.mhg, mhp |-> b.mhp]

ChgOK(chg) == chg = 0 \/ (chg \in 1..Len(ParamChoices) /\ NChg < MaxChg)

\* a generator must be in the generator list; here: any validator that is active at the height
MayForge(p, v) == ParamsAt(p.votes.params, p.h + 1).w[v] > 0

OwnHeaders(v) == {Hdr(b) : b \in {x \in blocks : x.gen = v /\ x.h > 0}}

HonestForge(v) ==
  \E p \in blocks : \E chg \in 0..Len(ParamChoices) :
    /\ p.h < MaxHeight /\ Cardinality(blocks) < MaxBlocks /\ LeavesOK(p) /\ ChgOK(chg) /\ MayForge(p, v)
    /\ IF HonestMode = "protocol"
       THEN /\ (p.id = tip[v] \/ Better(p, Blk(tip[v])))
            /\ LET b == MkBlock(p, v, maxGen[v], chg) IN
               /\ b \notin blocks
               /\ ~ContraChain(p.votes, Hdr(b))
               /\ blocks' = blocks \cup {b}
               /\ tip' = [tip EXCEPT ![v] = b.id]
               /\ maxGen' = [maxGen EXCEPT ![v] = Max2(@, b.h)]
       ELSE \E mhg \in 0..(p.h + 1) :
               LET b == MkBlock(p, v, mhg, chg) IN
               /\ b \notin blocks
               /\ ~ContraChain(p.votes, Hdr(b))
               /\ \A o \in OwnHeaders(v) : ~Contra(o, Hdr(b))
               /\ blocks' = blocks \cup {b}
               /\ UNCHANGED <<tip, maxGen>>

ByzForge(v) ==
  \E p \in blocks : \E mhg \in 0..(p.h + 1) : \E chg \in 0..Len(ParamChoices) :
    /\ p.h < MaxHeight /\ Cardinality(blocks) < MaxBlocks /\ LeavesOK(p) /\ ChgOK(chg) /\ MayForge(p, v)
    /\ LET b == MkBlock(p, v, mhg, chg) IN
       /\ b \notin blocks
       /\ ~ContraChain(p.votes, Hdr(b))
       /\ blocks' = blocks \cup {b}
       /\ UNCHANGED <<tip, maxGen>>

Init == /\ blocks = {Genesis}
        /\ tip = [v \in Validators |-> <<>>]
        /\ maxGen = [v \in Validators |-> 0]

Next == (\E v \in Honest : HonestForge(v)) \/ (\E v \in Byz : ByzForge(v))
Spec == Init /\ [][Next]_vars

(* ------------------------------ properties ------------------------------ *)
Anc(b, m) == SubSeq(b.id, 1, m)

\* C01: blocks finalised by any two chain views lie on one chain
Safety ==
  \A t1, t2 \in blocks :
    LET m == Min2(t1.votes.mhpc, t2.votes.mhpc) IN Anc(t1, m) = Anc(t2, m)

\* the finalised height of a view never exceeds its own height and prevoted >= precommitted
HeightsSane == \A b \in blocks : b.votes.mhpc <= b.votes.mhpv /\ b.votes.mhpv <= b.h

\* along a chain the three heights are monotone
Parent(b) == Blk(SubSeq(b.id, 1, b.h - 1))
MonotoneAlongChain ==
  \A b \in blocks : b.h > 0 =>
    /\ Parent(b).votes.mhpv <= b.votes.mhpv
    /\ Parent(b).votes.mhpc <= b.votes.mhpc

\* C07 link: headers of protocol-following validators never contradict each other
HonestNoContra ==
  \A v \in Honest : \A a, b \in OwnHeaders(v) : a # b => ~Contra(a, b)

\* one vote per validator and height on a branch: weights never exceed the total
WeightsBounded ==
  \A b \in blocks : \A i \in 1..Len(b.votes.infos) :
    LET e == b.votes.infos[i] tot == Total(ParamsAt(b.votes.params, e.h).w) IN e.pv <= tot /\ e.pc <= tot

\* API.AreHeadersContradicting (the premise of C01 as the code can evaluate it on any two headers it is shown): two
\* DIFFERENT block headers contradict iff LIP-0014 says so; a header never contradicts itself.  Ids are structural, so two
\* blocks with equal header fields on different parents are different headers (their real ids differ as well).
Attributable(a, b) == a.id # b.id /\ a.h > 0 /\ b.h > 0 /\ Contra(Hdr(a), Hdr(b))

(* ------------------------------ dumps for replay ------------------------- *)
Summary(b) ==
  [id |-> b.id, h |-> b.h, gen |-> b.gen, mhg |-> b.mhg, mhp |-> b.mhp, chg |-> b.chg,
   mhpv |-> b.votes.mhpv, mhpc |-> b.votes.mhpc,
   contra |-> SetToSeq({x.id : x \in {y \in blocks : Attributable(y, b)}}),
   win |-> [i \in 1..Len(b.votes.infos) |-> <<b.votes.infos[i].h, b.votes.infos[i].pv, b.votes.infos[i].pc>>],
   vinfo |-> [v \in Validators |-> <<IF b.votes.vinfo[v].active THEN 1 ELSE 0, b.votes.vinfo[v].minActive, b.votes.vinfo[v].lhp>>],
   pkeys |-> [i \in 1..Len(b.votes.params) |-> b.votes.params[i].from]]

Full == Cardinality(blocks) = MaxBlocks \/ \A p \in blocks : p.h = MaxHeight \/ ~LeavesOK(p)
HasFinality == \E b \in blocks : b.votes.mhpc > 0
DumpInv ==
  (DumpEvery > 0 /\ Full /\ RandomElement(1..(IF HasFinality THEN DumpFinalEvery ELSE DumpEvery)) = 1)
    => PrintT(<<"DUMP", ToJson(SetToSeq({Summary(b) : b \in blocks}))>>)

=============================================================================
