------------------------------- MODULE MCNode -------------------------------
EXTENDS Node
W111 == <<1, 1, 1>>
G123 == <<1, 2, 3>>
\* validator 3 leaves / weights change and the generator list is reordered
Choices3 == << [pcT |-> 2, certT |-> 2, w |-> <<1, 1, 0>>, gens |-> <<2, 1>>],
               [pcT |-> 3, certT |-> 3, w |-> <<2, 1, 1>>, gens |-> <<3, 1, 2>>] >>
AllMutations == {"version", "height+1", "height-1", "prev", "slot-same", "slot-future", "generator", "sig-wrongkey", "sig-wrongchain",
                 "sig-stale", "sig-stale-mhg", "sig-stale-ts", "sig-stale-stateroot", "mhp+1", "mhg-zero", "mhg-deny-latest", "mhg-noclaim", "ac-height-stale", "ac-beyond-precommit", "ac-beyond-nextparams",
                 "ac-empty-wrong-height", "ac-badsig", "ac-wrongblock", "ac-halfempty", "ac-lowweight", "txroot", "assetroot", "eventroot",
                 "stateroot", "vhash", "tx-static", "payload-size"}
NodeView == <<chain, vstack, fin, temp>>
=============================================================================
