------------------------------- MODULE MCNode -------------------------------
EXTENDS Node
W111 == <<1, 1, 1>>
G123 == <<1, 2, 3>>
\* validator 3 leaves / weights change and the generator list is reordered
Choices3 == << [pcT |-> 2, certT |-> 2, w |-> <<1, 1, 0>>, gens |-> <<2, 1>>],
               [pcT |-> 3, certT |-> 3, w |-> <<2, 1, 1>>, gens |-> <<3, 1, 2>>] >>
AllMutations == {"version", "height+1", "height-1", "prev", "slot-same", "slot-future", "generator", "sig-wrongkey", "sig-wrongchain",
                 "sig-stale", "sig-stale-mhg", "sig-stale-ts", "sig-stale-stateroot", "mhp+1", "mhg-zero", "mhg-deny-latest", "mhg-noclaim", "ac-height-stale", "ac-beyond-precommit", "ac-beyond-nextparams",
                 "ac-empty-wrong-height", "ac-badsig", "ac-wrongblock", "ac-halfempty", "ac-lowweight", "txroot", "assetroot", "eventroot",
                 "stateroot", "vhash", "tx-static", "payload-size",
                 \* the other side / other values of single-valued mutants, second-resolution slot boundaries, a swapped aggregate commit
                 "version-0", "version-3", "mhp-1", "slot-past", "slot-same-last", "slot-future-first", "sig-stale-ac",
                 \* every static transaction rule, invalid asset lists, roots over other well-formed content, one byte too many
                 "tx-static-command", "tx-static-params-size", "tx-static-sender-len", "tx-static-no-sigs", "tx-static-short-sig", "tx-static-last",
                 "assets-unsorted", "assets-duplicate", "eventroot-altered-data", "eventroot-altered-topic", "vhash-other-set", "vhash-old-on-change",
                 "payload-max+1", "ac-lightsigners"}
\* Node_w4321: four validators of unequal weight (in the harness the order of their addresses differs from the order of
\* their BLS keys), every minimal signer set of an aggregate commit, wider shapes of the valid successors
W4321 == <<4, 3, 2, 1>>
G1234 == <<1, 2, 3, 4>>
Choices4 == << [pcT |-> 4, certT |-> 6, w |-> <<3, 4, 2, 0>>, gens |-> <<2, 1, 3>>],
               [pcT |-> 5, certT |-> 5, w |-> <<1, 2, 3, 4>>, gens |-> <<4, 3, 2, 1>>] >>
TrueC == TRUE
ShapesWide == {<<0, "ok", "mid">>, <<1, "ok", "mid">>, <<3, "ok", "mid">>, <<0, "ok", "last">>, <<2, "ok", "first">>, <<0, "max", "mid">>}
NodeView == <<chain, vstack, fin, temp>>
=============================================================================
