-------------------------------- MODULE Net --------------------------------
(***************************************************************************)
(* A network of honest nodes, each hosting one validator, composed of the  *)
(* pieces the other modules model one at a time:                           *)
(*   - block production by the slot's generator on the node's own tip      *)
(*     (honest generator information: largest height ever generated, one   *)
(*     block per slot)                                                     *)
(*   - Executer.process(): the LIP-0014 fork choice cascade of             *)
(*     pkg/consensus/execute.go (identical / valid / double forging / tie  *)
(*     break / different chain / discard)                                  *)
(*   - fast synchronisation with the announcing peer                       *)
(*     (pkg/consensus/sync/fast_sync.go: common block among the last 2N-1  *)
(*     heights, not below the finalized height, at most two rounds back;   *)
(*     peer banned otherwise), and block sync when fast sync does not apply*)
(*   - Lisk-BFT vote counting along every branch (LiskBFT.tla)             *)
(* State                                                                   *)
(*   blocks    the tree of all blocks ever produced (structural ids = path *)
(*             of <<generator, maxHeightGenerated, slot>> from genesis)    *)
(*   tip[n]    the tip of node n (its chain is the path to it)             *)
(*   fin[n]    finalized height stored by node n                           *)
(*   recv[n]   node n has set lastBlockReceived (a block went through the  *)
(*             valid or tie-break branch since the node was created)       *)
(*   banned[n] peers node n has banned                                     *)
(*   maxGen, lastSlot   generator information of validator n               *)
(*   script    history with the expected observation after every step      *)
(* Wall-clock: as in Node.tla the current slot Now is a constant of the    *)
(* scenario (the harness pins real time inside slot Now).                  *)
(***************************************************************************)
EXTENDS LiskBFT, Json, SequencesExt

CONSTANTS Win, InitW, InitPCT, Now, MaxBlocks, MaxHeight, MaxSteps, MaxRestart, DumpEvery,
          ParamChoices, \* sequence of [pcT, certT, w, gens] a block may switch to (validator-set change decided by the application)
          MaxChg,       \* bound on the number of blocks carrying such a change
          Byz,          \* Byzantine validators (no node of their own: they forge anywhere, equivocate, and announce any of their blocks)
          MaxByz,       \* bound on the number of Byzantine blocks
          SlotSpan,     \* a forger uses one of the next SlotSpan slots (N: its next slot; 2N: it may skip a round)
          SkipDiscard,  \* TRUE: announcements the receiver would discard are not generated (deep simulation runs)
          MaxInvalid    \* bound on the number of blocks a Byzantine validator offers that break a BFT rule of verifyBlock (0: none)

VARIABLES blocks, tip, fin, recv, banned, maxGen, lastSlot, script
vars == <<blocks, tip, fin, recv, banned, maxGen, lastSlot, script>>

Nodes == Validators \ Byz          \* honest validators, one node each
Gens == [i \in 1..NVal |-> i]
\* the generator of a slot on a branch: the generator list in force at that height (LiskBFT gkeys)
GenAt(votes, h, slot) == LET g == ParamsAt(votes.gkeys, h).gens IN g[(slot % Len(g)) + 1]
\* number of BFT validators a node sees at its tip (createSyncContext: BFT parameters of tip height + 1)
ActiveAt(votes, h) == {v \in Validators : ParamsAt(votes.params, h).w[v] > 0}
NSync(last) == Cardinality(ActiveAt(last.votes, last.h + 1))

Genesis ==
  LET v0 == GenesisVotes(0, Win)
      v1 == SetGenKeys(SetParams(v0, InitPCT, InitPCT, InitW), Gens)
  IN [id |-> <<>>, h |-> 0, gen |-> 0, mhg |-> 0, mhp |-> 0, slot |-> 0, chg |-> 0, votes |-> v1]

Blk(id) == CHOOSE b \in blocks : b.id = id
ParentId(b) == SubSeq(b.id, 1, b.h - 1)
Anc(id, k) == SubSeq(id, 1, k)                 \* id of the ancestor at height k
Hdr(b) == [h |-> b.h, gen |-> b.gen, mhg |-> b.mhg, mhp |-> b.mhp, acH |-> 0, acNonEmpty |-> FALSE]

MkBlock(p, g, mhg, s, chg) ==
  LET hdr == [h |-> p.h + 1, gen |-> g, mhg |-> mhg, mhp |-> p.votes.mhpv, acH |-> 0, acNonEmpty |-> FALSE]
      v1 == Apply(p.votes, hdr)
      v2 == IF chg = 0 THEN v1
            ELSE SetGenKeys(SetParams(v1, ParamChoices[chg].pcT, ParamChoices[chg].certT, ParamChoices[chg].w), ParamChoices[chg].gens)
  IN [id |-> Append(p.id, <<g, mhg, s, chg>>), h |-> hdr.h, gen |-> g, mhg |-> mhg, mhp |-> hdr.mhp, slot |-> s, chg |-> chg,
      votes |-> v2]
NChg == Cardinality({b \in blocks : b.chg # 0})
ChgOK(c) == c = 0 \/ (c \in 1..Len(ParamChoices) /\ NChg < MaxChg)

Obs(n, tp, fn, bn) ==
  LET b == CHOOSE x \in blocks' : x.id = tp[n] IN
  [node |-> n, tip |-> tp[n], tipH |-> b.h, fin |-> fn[n], mhpv |-> b.votes.mhpv, mhpc |-> b.votes.mhpc,
   banned |-> SetToSortSeq(bn[n], <)]

Init == /\ blocks = {Genesis}
        /\ tip = [n \in Nodes |-> <<>>]
        /\ fin = [n \in Nodes |-> 0]
        /\ recv = [n \in Nodes |-> FALSE]
        /\ banned = [n \in Nodes |-> {}]
        /\ maxGen = [n \in Nodes |-> 0]
        /\ lastSlot = [n \in Nodes |-> 0]
        /\ script = <<>>

(* ------------------------------- forging ------------------------------- *)
Forge(n) ==
  /\ Len(script) < MaxSteps /\ Cardinality(blocks) < MaxBlocks
  /\ LET p == Blk(tip[n]) IN
     /\ p.h < MaxHeight
     /\ \E s \in (Max2(p.slot, lastSlot[n]) + 1)..Min2(Now, Max2(p.slot, lastSlot[n]) + SlotSpan) :
          /\ GenAt(p.votes, p.h + 1, s) = n
          /\ \E chg \in 0..Len(ParamChoices) :
             LET b == MkBlock(p, n, maxGen[n], s, chg) IN
             /\ ChgOK(chg)
             /\ ~ContraChain(p.votes, Hdr(b))          \* otherwise its own validation rejects the block: no step
             /\ blocks' = blocks \cup {b}
             /\ tip' = [tip EXCEPT ![n] = b.id]
             /\ fin' = [fin EXCEPT ![n] = Max2(@, b.votes.mhpc)]
             /\ recv' = [recv EXCEPT ![n] = TRUE]
             /\ maxGen' = [maxGen EXCEPT ![n] = Max2(@, b.h)]
             /\ lastSlot' = [lastSlot EXCEPT ![n] = s]
             /\ UNCHANGED banned
             /\ script' = Append(script, [op |-> "forge", node |-> n, slot |-> s, mhg |-> maxGen[n], chg |-> chg, branch |-> "valid",
                                          obs |-> Obs(n, tip', fin', banned')])

(* ------------------------------ fork choice ----------------------------- *)
Duplicate(last, b) == b.h = last.h /\ b.mhp = last.mhp /\ b.h > 0 /\ ParentId(b) = ParentId(last)
DifferentChain(last, b) == last.mhp < b.mhp \/ (last.h < b.h /\ last.mhp = b.mhp)

\* forkchoice.go, evaluated in the order of process()
Branch(n, last, b) ==
  IF b.id = last.id THEN "identical"
  ELSE IF b.h = last.h + 1 /\ ParentId(b) = last.id THEN "valid"
  ELSE IF Duplicate(last, b) /\ b.gen = last.gen THEN "doubleforging"
  ELSE IF Duplicate(last, b) /\ last.slot < b.slot /\ (recv[n] /\ last.slot # Now) /\ b.slot = Now THEN "tiebreak"
  ELSE IF DifferentChain(last, b) THEN "differentchain"
  ELSE "discard"

\* height of the lowest common ancestor of two blocks
RECURSIVE LcaH(_, _, _)
LcaH(a, b, k) == IF k < Len(a) /\ k < Len(b) /\ a[k + 1] = b[k + 1] THEN LcaH(a, b, k + 1) ELSE k
Lca(a, b) == LcaH(a, b, 0)

\* fast_sync.go: the node offers the ids of its last 2N-1 heights; the peer answers with the highest one it has.
\* N is the number of BFT validators at the node's tip; fast sync needs the offered block's generator among them.
SampledHeights(last) == {x \in 0..last.h : x + (2 * NSync(last) - 2) >= last.h}
SyncOutcome(n, last, b) ==
  LET ca == Lca(last.id, b.id)
      N == NSync(last)
      diff == IF b.h >= last.h THEN b.h - last.h ELSE last.h - b.h IN
  IF diff > 2 * N \/ b.gen \notin ActiveAt(last.votes, last.h + 1) THEN "blocksync"    \* not a fast sync: outside this model
  ELSE IF ca \notin SampledHeights(last) THEN "ban"            \* no common block among the sampled heights
  ELSE IF ca < fin[n] THEN "ban"
  ELSE IF last.h - ca > 2 * N \/ b.h - ca > 2 * N THEN "error"
  ELSE "switch"

\* node n processes block b announced by src (an honest node announcing its tip, or a Byzantine validator announcing
\* any of its blocks and serving that block's chain to whoever asks)
Receive(src, b, n) ==
  /\ Len(script) < MaxSteps /\ src # n
  /\ b.id # tip[n]                               \* (identical blocks are a stuttering step)
  /\ LET last == Blk(tip[n])  br == Branch(n, last, b)
         \* a ban closes the connection and the banning side's gater refuses the (shared loopback) address afterwards:
         \* no request can be exchanged between the two any more, in either direction
         linkDown == src \in banned[n] \/ (src \in Nodes /\ n \in banned[src])
         out == IF br # "differentchain" THEN "none"
                ELSE IF SyncOutcome(n, last, b) = "blocksync" THEN "blocksync"
                ELSE IF linkDown THEN "error" ELSE SyncOutcome(n, last, b) IN
     /\ out # "blocksync"                         \* outside the bounds of this model (covered by Sync.tla)
     /\ (SkipDiscard => br # "discard")
     /\ UNCHANGED <<blocks, maxGen, lastSlot>>
     /\ CASE br = "valid" \/ (br = "tiebreak" /\ last.h > fin[n]) ->
               /\ tip' = [tip EXCEPT ![n] = b.id]
               /\ fin' = [fin EXCEPT ![n] = Max2(@, b.votes.mhpc)]
               /\ recv' = [recv EXCEPT ![n] = TRUE]
               /\ UNCHANGED banned
          [] br = "tiebreak" /\ last.h <= fin[n] ->       \* the tip is final and cannot be removed
               /\ recv' = [recv EXCEPT ![n] = TRUE]
               /\ UNCHANGED <<tip, fin, banned>>
          [] br = "differentchain" /\ out = "switch" ->
               /\ tip' = [tip EXCEPT ![n] = b.id]
               /\ fin' = [fin EXCEPT ![n] = Max2(@, b.votes.mhpc)]
               \* LIP-0014 / forkchoice.go ("if receivedAt is nil, the block comes from syncing"): a tip obtained by
               \* synchronisation has no receive time and counts as received within its slot - no tie break against it
               /\ recv' = [recv EXCEPT ![n] = FALSE]
               /\ UNCHANGED banned
          [] br = "differentchain" /\ out = "ban" ->
               /\ banned' = [banned EXCEPT ![n] = @ \cup {src}]
               /\ UNCHANGED <<tip, fin, recv>>
          [] OTHER -> UNCHANGED <<tip, fin, recv, banned>>
     /\ script' = Append(script, [op |-> "deliver", from |-> src, node |-> n, blk |-> b.id, byz |-> src \in Byz, branch |-> br, sync |-> out,
                                  \* the LIP-0014 tie-break conditions hold as well (they must not matter for a double-forged block)
                                  tiewin |-> (Duplicate(last, b) /\ last.slot < b.slot /\ recv[n] /\ last.slot # Now /\ b.slot = Now),
                                  obs |-> Obs(n, tip', fin', banned')])

Deliver(p, n) == Receive(p, Blk(tip[p]), n)

\* Byzantine validators: any branch-valid block (what verifyBlock accepts on that branch) on any parent, any claimed
\* maxHeightGenerated, several blocks per height / slot; they are announced to honest nodes in any order
NByz == Cardinality({b \in blocks : b.gen \in Byz})
ByzForge(v) ==
  /\ Len(script) < MaxSteps /\ Cardinality(blocks) < MaxBlocks /\ NByz < MaxByz
  /\ \E p \in blocks : \E mhg \in {0, p.h + 1} \cup {x.h : x \in {y \in blocks : y.gen = v}} :
       /\ p.h < MaxHeight
       /\ \E s \in (p.slot + 1)..Min2(Now, p.slot + SlotSpan) :
            /\ GenAt(p.votes, p.h + 1, s) = v
            /\ LET b == MkBlock(p, v, mhg, s, 0) IN
               /\ b \notin blocks
               /\ ~ContraChain(p.votes, Hdr(b))
               /\ blocks' = blocks \cup {b}
               /\ UNCHANGED <<tip, fin, recv, banned, maxGen, lastSlot>>
               /\ script' = Append(script, [op |-> "byzforge", node |-> v, parent |-> p.id, blk |-> b.id, slot |-> s, mhg |-> mhg, branch |-> "none"])
ByzDeliver(v, n) == \E b \in {x \in blocks : x.gen = v} : Receive(v, b, n)

\* C01, the two BFT rules of verifyBlock in the negative direction: a Byzantine validator offers node n a block that
\* extends n's tip in one of its own slots and is valid except that either its maxHeightPrevoted is off by one from the
\* value of the branch ("mhp+1" / "mhp-1"; the header does not contradict the chain with either value) or the header
\* contradicts the validator's latest header inside the window of the branch ("contra": it claims a maxHeightGenerated
\* below a block it visibly generated, so that its prevotes and precommits would be counted a second time).  Such a
\* block never becomes part of the tree: the node stays where it is (who is banned afterwards is not the model's concern).
\* The step is an ordinary one in the middle of behaviours: whatever it leaves behind is observed by the steps that follow.
\* bounds: at most one block with a wrong maxHeightPrevoted (possible almost everywhere, so random walks would spend the
\* whole budget on it at their start) and at most MaxInvalid contradicting ones (possible only once a block of the
\* Byzantine validator is inside the window of the receiver's chain)
NInvalid(kinds) == Cardinality({i \in 1..Len(script) : script[i].op = "byzinvalid" /\ script[i].kind \in kinds})
ByzForgeInvalid(v, n) ==
  /\ Len(script) < MaxSteps /\ MaxInvalid > 0
  /\ LET p == Blk(tip[n]) IN
     \E s \in (p.slot + 1)..Min2(Now, p.slot + SlotSpan) :
       /\ GenAt(p.votes, p.h + 1, s) = v
       /\ \E kind \in {"mhp+1", "mhp-1", "contra"} :
          \E mhg \in {0, p.h + 1} \cup {x.h : x \in {y \in blocks : y.gen = v}} :
            LET good == p.votes.mhpv
                mhp == IF kind = "mhp+1" THEN good + 1 ELSE IF kind = "mhp-1" THEN good - 1 ELSE good
                H(m) == [h |-> p.h + 1, gen |-> v, mhg |-> mhg, mhp |-> m, acH |-> 0, acNonEmpty |-> FALSE]
            IN /\ mhp >= 0
               /\ IF kind = "contra" THEN NInvalid({"contra"}) < MaxInvalid /\ ContraChain(p.votes, H(good))
                  ELSE /\ NInvalid({"mhp+1", "mhp-1"}) < 1 /\ p.h >= 2
                       /\ ~ContraChain(p.votes, H(good)) /\ ~ContraChain(p.votes, H(mhp))     \* exactly one rule is broken
               /\ UNCHANGED <<blocks, tip, fin, recv, banned, maxGen, lastSlot>>
               /\ script' = Append(script, [op |-> "byzinvalid", node |-> n, from |-> v, slot |-> s, mhg |-> mhg, mhp |-> mhp, kind |-> kind,
                                            byz |-> TRUE, branch |-> "invalid", sync |-> "none", obs |-> Obs(n, tip', fin', banned')])

(* the node is re-created on its database: receive time and ban list are in memory only *)
NRestart == Cardinality({i \in 1..Len(script) : script[i].op = "restart"})
Restart(n) ==
  /\ Len(script) < MaxSteps /\ NRestart < MaxRestart /\ Len(script) > 0
  /\ recv' = [recv EXCEPT ![n] = FALSE]
  /\ banned' = [banned EXCEPT ![n] = {}]
  /\ UNCHANGED <<blocks, tip, fin, maxGen, lastSlot>>
  /\ script' = Append(script, [op |-> "restart", node |-> n, branch |-> "none", obs |-> Obs(n, tip', fin', banned')])

Next == \/ \E n \in Nodes : Forge(n) \/ Restart(n) \/ (\E p \in Nodes : Deliver(p, n)) \/ (\E v \in Byz : ByzDeliver(v, n))
        \/ \E v \in Byz : ByzForge(v)
        \/ \E v \in Byz : \E n \in Nodes : ByzForgeInvalid(v, n)
Spec == Init /\ [][Next]_vars

(* ------------------------------ properties ------------------------------ *)
\* C01 at system level: the finalized prefixes of any two nodes lie on one chain
Agreement ==
  \A n, m \in Nodes : LET k == Min2(fin[n], fin[m]) IN Anc(tip[n], k) = Anc(tip[m], k)
\* stronger: nothing any node finalized conflicts with what any branch view finalizes
TreeSafety ==
  \A t1, t2 \in blocks : LET k == Min2(t1.votes.mhpc, t2.votes.mhpc) IN Anc(t1.id, k) = Anc(t2.id, k)
\* C04: per node the finalized height is monotone, within the chain, and finalized blocks stay
FinalMonotone == [][\A n \in Nodes : fin'[n] >= fin[n]]_vars
FinalSane == \A n \in Nodes : fin[n] <= Len(tip[n]) /\ fin[n] >= Blk(tip[n]).votes.mhpc
FinalizedIrreversible == [][\A n \in Nodes : Anc(tip'[n], fin[n]) = Anc(tip[n], fin[n])]_vars
\* C07/C15 link: protocol-following validators never sign contradicting headers, at most one block per slot
OwnHeaders(v) == {b \in blocks : b.gen = v /\ b.h > 0}
HonestNoContra == \A v \in Nodes : \A a, b \in OwnHeaders(v) : a # b => ~Contra(Hdr(a), Hdr(b))
OneBlockPerSlot == \A a, b \in blocks : (a.h > 0 /\ b.h > 0 /\ a.slot = b.slot /\ a.gen = b.gen /\ a.gen \in Nodes) => a = b
\* fork choice only ever moves a node to a chain that is not worse (LIP-0014 order on (maxHeightPrevoted, height))
NeverWorse == [][\A n \in Nodes : LET a == Blk(tip[n]) b == CHOOSE x \in blocks' : x.id = tip'[n] IN
                     b.mhp > a.mhp \/ (b.mhp = a.mhp /\ b.h >= a.h)]_vars
TipsExist == \A n \in Nodes : \E b \in blocks : b.id = tip[n]

(* ------------------------------ dumps ----------------------------------- *)
HasFinality == \E n \in Nodes : fin[n] > 0
FinDumpEvery == IF DumpEvery >= 10 THEN DumpEvery \div 10 ELSE 1
HasFork == \E a, b \in blocks : a # b /\ a.h = b.h
\* search help: dumps a behaviour in which a double-forged block arrives inside the tie-break window
DumpDoubleForgeInTieWindow ==
  (\E i \in 1..Len(script) : script[i].op = "deliver" /\ script[i].branch = "doubleforging" /\ script[i].tiewin)
    => PrintT(<<"DUMP", ToJson([script |-> script])>>)
Interesting == \E i \in 1..Len(script) : script[i].branch \in {"tiebreak", "differentchain", "doubleforging"}
\* a block that breaks a BFT rule was offered and steps follow it (rare in a uniform sample of the exhaustive configurations)
InvalidInTheMiddle == \E i \in 1..(Len(script) - 1) : script[i].op = "byzinvalid"
DumpInv ==
  (DumpEvery > 0 /\ (Len(script) = MaxSteps \/ ~ENABLED Next)
     /\ RandomElement(1..(IF HasFinality \/ InvalidInTheMiddle THEN FinDumpEvery ELSE IF Interesting THEN DumpEvery ELSE 20 * DumpEvery)) = 1)
    => PrintT(<<"DUMP", ToJson([script |-> script])>>)
=============================================================================
