----------------------------- MODULE MCNodeLong -----------------------------
(***************************************************************************)
(* Directed case generator for C13 on Node.tla: chains longer than the BFT *)
(* window and than a small block cache.  Every slot since genesis is used  *)
(* (full participation: finality and certification keep up), so that the   *)
(* consensus store prunes the BFT parameters and generator keys of old     *)
(* heights - the block batch and its revert diff then carry DELETED        *)
(* consensus keys - and the tips of the long chain are removed again       *)
(* (several in a row: more than the cache holds), kept as temporary        *)
(* blocks, restored.  The actions are those of Node.tla; only the choice   *)
(* between them is narrowed.                                               *)
(***************************************************************************)
EXTENDS MCNode
LongMin == 10
EverySlot == SubmitValid /\ chain'[Len(chain')].slot = Len(chain')
LongNext == EverySlot \/ (Len(chain) >= LongMin /\ DeleteTip)
LongSpec == Init /\ [][LongNext]_vars
\* the script alone (the mutant probes of Node!DumpInv are not used by C13)
LongDump == (DumpEvery > 0 /\ Len(script) >= LongMin /\ RandomElement(1..DumpEvery) = 1) => PrintT(<<"DUMP", ToJson([script |-> script])>>)
=============================================================================
