----------------------------- MODULE MCConnGater -----------------------------
(***************************************************************************)
(* Schedule generator for the replay of ConnGater on the real              *)
(* connectionGater / rateLimit (C18).  A behaviour is a schedule: per tick *)
(* a number (budget) of penalty / ban / message steps, then the sweep when *)
(* it is due, then the tick.  `poss[ip]` is the SET of local states the    *)
(* specification allows after the schedule so far (all outcomes of         *)
(* PenSucc / MsgSucc / SweepSucc, closed under the spontaneous Lift);      *)
(* every step is recorded in `hist` with the projection of that set:       *)
(*   s = score (-1: banned, score not compared), b = banned,               *)
(*   g = answer every gate must give ("allow", "deny", "any").             *)
(* The real state after the step must match one element of the set.        *)
(***************************************************************************)
EXTENDS ConnGater, Json

CONSTANTS MaxPerTick,  \* steps per tick
          DumpEvery    \* print about 1/DumpEvery of the complete schedules (0: none)

VARIABLES hist, poss, budget
mcvars == <<vars, hist, poss, budget>>

LiftClosure(S, t) == S \cup {Clean(c) : c \in {x \in S : Expired(x, t)}}
GateCode(A) == IF A = {TRUE} THEN "allow" ELSE IF A = {FALSE} THEN "deny" ELSE "any"
Proj(ip, S, t) ==
  {[s |-> IF IsBanned(c) THEN -1 ELSE c.score, b |-> IF IsBanned(c) THEN 1 ELSE 0,
    g |-> GateCode(GateLocal(c, ip \in blocked, t))] : c \in S}
Entry(act, P, t) ==
  [a |-> act.a, ip |-> act.ip, n |-> act.n, proc |-> act.proc, k |-> act.k, t |-> t,
   exp |-> [ip \in IPs |-> Proj(ip, P[ip], t)]]

MCInit ==
  /\ Init
  /\ poss = [ip \in IPs |-> {CleanState}]
  /\ budget \in 0..MaxPerTick
  /\ hist = <<>>

Record(t) == hist' = Append(hist, Entry(last', poss', t))

MCPen(ip, n) ==
  /\ budget > 0 /\ AddPenalty(ip, n) /\ budget' = budget - 1
  /\ poss' = [poss EXCEPT ![ip] = LiftClosure(UNION {PenSucc(c, n, now) : c \in @}, now)]
  /\ Record(now)
MCBan(ip) ==
  /\ budget > 0 /\ Ban(ip) /\ budget' = budget - 1
  /\ poss' = [poss EXCEPT ![ip] = LiftClosure(UNION {PenSucc(c, MaxScore, now) : c \in @}, now)]
  /\ Record(now)
MCMsg(ip, p, k) ==
  /\ budget > 0 /\ Msg(ip, p, k) /\ budget' = budget - 1
  /\ poss' = [poss EXCEPT ![ip] = LiftClosure(BurstSucc(@, p, win[ip][p], prevwin[ip][p], now, k), now)]
  /\ Record(now)
MCSweep ==
  /\ budget = 0 /\ Sweep /\ UNCHANGED budget
  /\ poss' = [ip \in IPs |-> UNION {SweepSucc(c, now) : c \in poss[ip]}]
  /\ Record(now)
MCTick ==
  /\ budget = 0 /\ Tick /\ budget' \in 0..MaxPerTick
  /\ poss' = [ip \in IPs |-> LiftClosure({TickLocal(c) : c \in poss[ip]}, now + 1)]
  /\ Record(now + 1)
GiveUp == budget > 0 /\ budget' = 0 /\ UNCHANGED <<vars, hist, poss>>

MCNext ==
  \/ \E ip \in IPs : (\E n \in Penalties : MCPen(ip, n)) \/ MCBan(ip)
  \/ \E ip \in IPs, p \in Procs, k \in Bursts : MCMsg(ip, p, k)
  \/ MCSweep \/ MCTick \/ GiveUp
MCSpec == MCInit /\ [][MCNext]_mcvars

\* the state of the specification is one of the allowed states
Tracked == \A ip \in IPs : st[ip] \in poss[ip]
Terminal == now = MaxTime /\ budget = 0 /\ (SweepDue => swept)
DumpInv ==
  (DumpEvery > 0 /\ Terminal /\ RandomElement(1..DumpEvery) = 1)
    => PrintT(<<"DUMP", ToJson([blocked |-> blocked, period |-> period, phase |-> phase, steps |-> hist])>>)
=============================================================================
