----------------------------- MODULE MCConnGater -----------------------------
(***************************************************************************)
(* Schedule generator for the replay of ConnGater on the real              *)
(* connectionGater / rateLimit (C18).  A behaviour is a schedule: per tick *)
(* a number (budget) of penalty / ban / message steps, then the sweep when *)
(* it is due, then the tick.  `poss[ip]` is the SET of local states the    *)
(* specification allows after the schedule so far (all outcomes of         *)
(* PenSucc / MsgSucc / SweepSucc, closed under the spontaneous Lift);      *)
(* every step is recorded in `hist` with the projection of that set:       *)
(*   s = score (-1: banned, score not compared), b = banned,               *)
(*   g = answer every gate must give ("allow", "deny", "any").             *)
(* The real state after the step must match one element of the set.        *)
(*                                                                         *)
(* Spellings.  In ConnGater an IP is one identity.  The generator attaches *)
(* a spelling index to every penalty / ban / message step (`sp`) and to    *)
(* the blacklist configuration (`blsp`); the harness maps the index to one *)
(* textual form of the address (dotted, IPv4-mapped IPv6, expanded,        *)
(* compressed, upper-case IPv6) and asks every gate with every spelling    *)
(* after every step.  The expected states do not depend on them.           *)
(*                                                                         *)
(* Concurrent ticks (Conc = TRUE).  All steps of one tick are issued at    *)
(* the same instant from different goroutines, so any order of them (and   *)
(* a Lift between any two) may be the one that happened: `poss` after a    *)
(* step is the union, over all permutations of the steps of the tick so    *)
(* far, of the sequential outcome.  The harness compares after the last    *)
(* step of a tick only.                                                    *)
(***************************************************************************)
EXTENDS ConnGater, Json

CONSTANTS MaxPerTick,  \* steps per tick
          DumpEvery,   \* print about 1/DumpEvery of the complete schedules (0: none)
          Spellings,   \* spelling indices (the harness takes them modulo the number of forms of the IP)
          Conc         \* TRUE: the steps of one tick are concurrent

VARIABLES hist, poss, budget, blsp, tsteps, tposs, twin
mcvars == <<vars, hist, poss, budget, blsp, tsteps, tposs, twin>>

LiftClosure(S, t) == S \cup {Clean(c) : c \in {x \in S : Expired(x, t)}}
GateCode(A) == IF A = {TRUE} THEN "allow" ELSE IF A = {FALSE} THEN "deny" ELSE "any"
Proj(ip, S, t) ==
  {[s |-> IF IsBanned(c) THEN -1 ELSE c.score, b |-> IF IsBanned(c) THEN 1 ELSE 0,
    g |-> GateCode(GateLocal(c, ip \in blocked, t))] : c \in S}
Entry(act, sp, P, t) ==
  [a |-> act.a, ip |-> act.ip, n |-> act.n, proc |-> act.proc, k |-> act.k, peer |-> act.peer, sp |-> sp, t |-> t,
   exp |-> [ip \in IPs |-> Proj(ip, P[ip], t)]]

(* ---- one step of the current tick as a function of (possible states, message counts) ---- *)
StepPoss(P, W, s) ==
  IF s.a = "msg"
  THEN [P EXCEPT ![s.ip] = LiftClosure(BurstSucc(@, s.peer, s.proc, W[s.ip][s.peer][s.proc],
                                                 prevwin[s.ip][s.peer][s.proc], now, s.k), now)]
  ELSE [P EXCEPT ![s.ip] = LiftClosure(UNION {PenSucc(c, s.n, now) : c \in @}, now)]
StepWin(W, s) == IF s.a = "msg" THEN [W EXCEPT ![s.ip][s.peer][s.proc] = @ + s.k] ELSE W
RECURSIVE Fold(_, _, _)
Fold(P, W, seq) == IF seq = <<>> THEN P ELSE Fold(StepPoss(P, W, Head(seq)), StepWin(W, Head(seq)), Tail(seq))
RECURSIVE Perms(_)
Perms(seq) ==     \* all orders of the elements of a sequence
  IF seq = <<>> THEN {<<>>}
  ELSE UNION {{<<seq[i]>> \o r : r \in Perms([j \in 1..(Len(seq) - 1) |-> IF j < i THEN seq[j] ELSE seq[j + 1]])}
              : i \in 1..Len(seq)}
AfterSteps(seq) ==
  IF Conc THEN [ip \in IPs |-> UNION {Fold(tposs, twin, pm)[ip] : pm \in Perms(seq)}]
  ELSE Fold(tposs, twin, seq)

MCInit ==
  /\ Init
  /\ poss = [ip \in IPs |-> {CleanState}]
  /\ budget \in 0..MaxPerTick
  /\ blsp \in Spellings
  /\ hist = <<>>
  /\ tsteps = <<>> /\ tposs = poss /\ twin = win

Record(t, sp) == hist' = Append(hist, Entry(last', sp, poss', t))
Stepped ==        \* after a penalty / ban / message step of the base specification
  /\ budget > 0 /\ budget' = budget - 1
  /\ tsteps' = Append(tsteps, last')
  /\ poss' = AfterSteps(tsteps')
  /\ \E sp \in Spellings : Record(now, sp)
  /\ UNCHANGED <<blsp, tposs, twin>>

MCPen(ip, n) == AddPenalty(ip, n) /\ Stepped
MCBan(ip) == Ban(ip) /\ Stepped
MCMsg(ip, q, p, k) == Msg(ip, q, p, k) /\ Stepped
MCSweep ==
  /\ budget = 0 /\ Sweep /\ UNCHANGED <<budget, blsp, tsteps, tposs, twin>>
  /\ poss' = [ip \in IPs |-> UNION {SweepSucc(c, now) : c \in poss[ip]}]
  /\ Record(now, 0)
MCTick ==
  /\ budget = 0 /\ Tick /\ budget' \in 0..MaxPerTick
  /\ poss' = [ip \in IPs |-> LiftClosure({TickLocal(c, win[ip]) : c \in poss[ip]}, now + 1)]
  /\ tsteps' = <<>> /\ tposs' = poss' /\ twin' = win'
  /\ UNCHANGED blsp
  /\ Record(now + 1, 0)
GiveUp == budget > 0 /\ budget' = 0 /\ UNCHANGED <<vars, hist, poss, blsp, tsteps, tposs, twin>>

MCNext ==
  \/ \E ip \in IPs : (\E n \in Penalties : MCPen(ip, n)) \/ MCBan(ip)
  \/ \E ip \in IPs, q \in Peers, p \in Procs, k \in Bursts : MCMsg(ip, q, p, k)
  \/ MCSweep \/ MCTick \/ GiveUp
MCSpec == MCInit /\ [][MCNext]_mcvars

\* the state of the specification is one of the allowed states
Tracked == \A ip \in IPs : st[ip] \in poss[ip]
\* the sequential outcome is always among the outcomes of the concurrent tick
SerialInConc == ~swept => \A ip \in IPs : Fold(tposs, twin, tsteps)[ip] \subseteq poss[ip]
Terminal == now = MaxTime /\ budget = 0 /\ (SweepDue => swept)
DumpInv ==
  (DumpEvery > 0 /\ Terminal /\ RandomElement(1..DumpEvery) = 1)
    => PrintT(<<"DUMP", ToJson([blocked |-> blocked, blsp |-> blsp, period |-> period, phase |-> phase,
                                conc |-> Conc, steps |-> hist])>>)
=============================================================================
