------------------------------ MODULE LiskBFT ------------------------------
(***************************************************************************)
(* Lisk-BFT vote counting (LIP-0056 / LIP-0058) as implemented by          *)
(* pkg/consensus/liskbft.  Pure operators over a "votes" record; used by   *)
(*   - LiskBFTTree   (fork-tree safety model, C01)                         *)
(*   - LiskBFTTrace  (trace validation of the real liskbft.Module, C02/C07)*)
(*   - Node          (engine level model, C03-C05)                         *)
(*                                                                         *)
(* One operator per critical section of the Go code:                       *)
(*   Apply      = Module.BeforeTransactionsExecute (insert, precommits,    *)
(*                prevotes, max heights, certified height, pruning)        *)
(*   SetParams  = API.SetBFTParameters + API.SetGeneratorKeys              *)
(*   ContraChain= API.IsHeaderContradictingChain                           *)
(* Validators are 1..N so that functions over them are sequences (JSON).   *)
(***************************************************************************)
EXTENDS Integers, Sequences, FiniteSets, TLC

CONSTANTS NVal       \* number of validator identities
\* the vote window length (3 * batchSize) is carried in votes.win

Validators == 1..NVal

Max2(a, b) == IF a >= b THEN a ELSE b
Min2(a, b) == IF a <= b THEN a ELSE b
Max3(a, b, c) == Max2(a, Max2(b, c))

RECURSIVE SumW(_, _)
SumW(w, n) == IF n = 0 THEN 0 ELSE w[n] + SumW(w, n - 1)
Total(w) == SumW(w, NVal)

PrevoteThreshold(w) == (2 * Total(w)) \div 3 + 1
MinThreshold(w) == Total(w) \div 3 + 1

NoVInfo == [active |-> FALSE, minActive |-> 0, lhp |-> 0]

(* ---- parameters by height: sequence of entries sorted by .from ascending ---- *)
ParamIdx(ps, h) == {i \in 1..Len(ps) : ps[i].from <= h}
HasParamsAt(ps, h) == ParamIdx(ps, h) # {}
ParamsAt(ps, h) == LET idx == ParamIdx(ps, h) IN ps[CHOOSE i \in idx : \A j \in idx : j <= i]
ExistParams(ps, h) == \E i \in 1..Len(ps) : ps[i].from = h
\* API.NextHeightBFTParameters(h): smallest key >= h+1, 0 when none
NextParamsHeight(ps, h) ==
  LET idx == {i \in 1..Len(ps) : ps[i].from >= h + 1} IN
  IF idx = {} THEN 0 ELSE ps[CHOOSE i \in idx : \A j \in idx : i <= j].from

\* deleteBFTParams / deleteGeneratorKeys (util.go): of the keys <= minReq keep only the largest
PruneKeys(ps, minReq) ==
  LET idx == ParamIdx(ps, minReq) IN
  IF Cardinality(idx) <= 1 THEN ps
  ELSE LET keep == CHOOSE i \in idx : \A j \in idx : j <= i IN SubSeq(ps, keep, Len(ps))

GenesisVotes(h0, win) ==
  [win |-> win, infos |-> <<>>, vinfo |-> [v \in Validators |-> NoVInfo],
   mhpv |-> h0, mhpc |-> h0, cert |-> h0, params |-> <<>>, gkeys |-> <<>>]

CurHeight(votes) == IF Len(votes.infos) > 0 THEN votes.infos[1].h ELSE votes.mhpv

(* ---- API.SetBFTParameters -------------------------------------------------- *)
ValidParams(pcT, certT, w, batch) ==
  /\ Cardinality({v \in Validators : w[v] > 0}) <= batch
  /\ MinThreshold(w) <= pcT /\ pcT <= Total(w)
  /\ MinThreshold(w) <= certT /\ certT <= Total(w)

SameParams(votes, pcT, certT, w) ==
  LET cur == CurHeight(votes) IN
  /\ HasParamsAt(votes.params, cur)
  /\ LET p == ParamsAt(votes.params, cur) IN p.w = w /\ p.pcT = pcT /\ p.certT = certT

SetParams(votes, pcT, certT, w) ==
  IF SameParams(votes, pcT, certT, w) THEN votes
  ELSE
    LET cur == CurHeight(votes)
        nxt == cur + 1
        entry == [from |-> nxt, pvT |-> PrevoteThreshold(w), pcT |-> pcT, certT |-> certT, w |-> w]
        kept == SelectSeq(votes.params, LAMBDA e : e.from # nxt)
    IN [votes EXCEPT
          !.params = Append(kept, entry),
          !.vinfo = [v \in Validators |->
                        IF w[v] > 0
                        THEN (IF votes.vinfo[v].active THEN votes.vinfo[v]
                              ELSE [active |-> TRUE, minActive |-> nxt, lhp |-> nxt - 1])
                        ELSE NoVInfo]]

\* API.SetGeneratorKeys: always writes at the next height
SetGenKeys(votes, gens) ==
  LET nxt == CurHeight(votes) + 1
      kept == SelectSeq(votes.gkeys, LAMBDA e : e.from # nxt)
  IN [votes EXCEPT !.gkeys = Append(kept, [from |-> nxt, gens |-> gens])]

(* ---- getHeightNotPrevoted ---------------------------------------------------- *)
RECURSIVE HNP(_, _, _, _)
HNP(infos, cur, gen, prev) ==
  LET off == cur - prev IN
  IF off < Len(infos)
  THEN LET bi == infos[off + 1] IN
       IF bi.gen # gen \/ bi.mhg >= prev THEN prev ELSE HNP(infos, cur, gen, bi.mhg)
  ELSE infos[Len(infos)].h - 1

\* first (newest) window entry whose weight reaches the threshold of its own height
FirstReached(infos, ps, field, thr, dflt) ==
  LET idx == {i \in 1..Len(infos) : infos[i][field] >= ParamsAt(ps, infos[i].h)[thr]} IN
  IF idx = {} THEN dflt ELSE infos[CHOOSE i \in idx : \A j \in idx : i <= j].h

(* ---- Module.BeforeTransactionsExecute ---------------------------------------- *)
\* hdr = [h, gen, mhg, mhp, acH, acNonEmpty]
ApplyVotes(votes, hdr) ==
  LET new == [h |-> hdr.h, gen |-> hdr.gen, mhg |-> hdr.mhg, mhp |-> hdr.mhp, pv |-> 0, pc |-> 0]
      ins == LET s == <<new>> \o votes.infos IN SubSeq(s, 1, Min2(Len(s), votes.win))
      g == hdr.gen
      vi == votes.vinfo[g]
      ps == votes.params
      doVote == hdr.mhg < hdr.h /\ vi.active
      hnp == HNP(ins, hdr.h, g, hdr.mhg)
      minPC == Max3(vi.minActive, hnp + 1, vi.lhp + 1)
      WAt(i) == ParamsAt(ps, ins[i].h).w[g]
      pcIdx == {i \in 1..Len(ins) : ins[i].h >= minPC /\ ins[i].pv >= ParamsAt(ps, ins[i].h).pvT}
      afterPC == [i \in 1..Len(ins) |-> IF doVote /\ i \in pcIdx THEN [ins[i] EXCEPT !.pc = @ + WAt(i)] ELSE ins[i]]
      newLhp == IF doVote /\ pcIdx # {} THEN ins[CHOOSE i \in pcIdx : \A j \in pcIdx : i <= j].h ELSE vi.lhp
      minPV == Max2(hdr.mhg + 1, vi.minActive)
      afterPV == [i \in 1..Len(ins) |-> IF doVote /\ afterPC[i].h >= minPV THEN [afterPC[i] EXCEPT !.pv = @ + WAt(i)] ELSE afterPC[i]]
  IN [votes EXCEPT
        !.infos = afterPV,
        !.vinfo = [votes.vinfo EXCEPT ![g] = [vi EXCEPT !.lhp = newLhp]],
        !.mhpv = FirstReached(afterPV, ps, "pv", "pvT", votes.mhpv),
        !.mhpc = FirstReached(afterPV, ps, "pc", "pcT", votes.mhpc),
        !.cert = IF hdr.acNonEmpty THEN hdr.acH ELSE votes.cert]

Prune(votes) ==
  LET minReq == Min2(votes.infos[Len(votes.infos)].h, votes.cert + 1) IN
  [votes EXCEPT !.params = PruneKeys(votes.params, minReq), !.gkeys = PruneKeys(votes.gkeys, minReq)]

Apply(votes, hdr) == Prune(ApplyVotes(votes, hdr))

\* the Go code returns an error ("BFT parameters should always exist") when the oldest
\* window height has no parameters
ApplyDefined(votes, hdr) ==
  LET n == Min2(Len(votes.infos) + 1, votes.win)
      oldest == IF n = 1 THEN hdr.h ELSE votes.infos[n - 1].h
  IN HasParamsAt(votes.params, oldest)

(* ---- API.ImpliesMaximalPrevotes (evaluated after Apply for the same header) -- *)
ImpliesMaxPrevotes(votes, hdr) ==
  IF hdr.mhg >= hdr.h THEN FALSE
  ELSE LET off == hdr.h - hdr.mhg - 1 IN
       IF off >= Len(votes.infos) THEN TRUE
       ELSE votes.infos[off + 1].gen = hdr.gen

(* ---- contradiction (LIP-0014), operational form = contradiction.go ---------- *)
Contra(b1, b2) ==
  LET swap == \/ b1.mhg > b2.mhg
              \/ (b1.mhg = b2.mhg /\ b1.mhp > b2.mhp)
              \/ (b1.mhg = b2.mhg /\ b1.mhp = b2.mhp /\ b1.h > b2.h)
      e == IF swap THEN b2 ELSE b1
      l == IF swap THEN b1 ELSE b2
  IN /\ e.gen = l.gen
     /\ \/ (e.mhp = l.mhp /\ e.h >= l.h)
        \/ e.h > l.mhg
        \/ e.mhp > l.mhp

\* API.IsHeaderContradictingChain: compare with the generator's newest header in the window
ContraChain(votes, hdr) ==
  LET idx == {i \in 1..Len(votes.infos) : votes.infos[i].gen = hdr.gen} IN
  IF idx = {} THEN FALSE
  ELSE Contra(votes.infos[CHOOSE i \in idx : \A j \in idx : i <= j], hdr)

\* LIP-0014 fork choice order on (maxHeightPrevoted, height)
Better(t2, t1) == t2.mhp > t1.mhp \/ (t2.mhp = t1.mhp /\ t2.h > t1.h)

=============================================================================
