----------------------------- MODULE StagedStore -----------------------------
(***************************************************************************)
(* Staged state store (pkg/db/diffdb over pkg/db) - property C12.          *)
(* Keys are byte strings = sequences of naturals, ordered bytewise.        *)
(* The overlay semantics is DEFINED as: every read through any prefix view *)
(* returns what the same read returns on eff = db with all staged writes   *)
(* and deletes applied.  One action per public call of diffdb.Database.    *)
(*   db    : committed database contents    (set of <<key, value>>)        *)
(*   eff   : db with the staged operations applied                         *)
(*   snaps : (store object, snapshot id) -> eff at the time of the snapshot *)
(***************************************************************************)
EXTENDS Integers, Sequences, FiniteSets, SequencesExt, TLC

RECURSIVE LexLess(_, _)
LexLess(a, b) ==
  IF Len(a) = 0 THEN Len(b) > 0
  ELSE IF Len(b) = 0 THEN FALSE
  ELSE IF a[1] # b[1] THEN a[1] < b[1]
  ELSE LexLess(Tail(a), Tail(b))
LexLeq(a, b) == a = b \/ LexLess(a, b)

HasPrefix(k, p) == Len(k) >= Len(p) /\ SubSeq(k, 1, Len(p)) = p
Strip(k, n) == SubSeq(k, n + 1, Len(k))

Keys(m) == {e[1] : e \in m}
Has(m, k) == k \in Keys(m)
Val(m, k) == (CHOOSE e \in m : e[1] = k)[2]
Put(m, k, v) == {e \in m : e[1] # k} \cup {<<k, v>>}
Rem(m, k) == {e \in m : e[1] # k}

SortAsc(S) == SetToSortSeq(S, LAMBDA a, b : LexLess(a[1], b[1]))
Order(S, rev) == IF rev THEN Reverse(SortAsc(S)) ELSE SortAsc(S)
Take(s, limit) == IF limit < 0 \/ Len(s) <= limit THEN s ELSE SubSeq(s, 1, limit)
StripAll(s, n) == [i \in 1..Len(s) |-> <<Strip(s[i][1], n), s[i][2]>>]

(* ---- reads on a map m through a view with full prefix p ------------------ *)
GetR(m, p, k) == IF Has(m, p \o k) THEN Val(m, p \o k) ELSE -1
RangeR(m, p, s, e, limit, rev) ==
  StripAll(Take(Order({x \in m : LexLeq(p \o s, x[1]) /\ LexLeq(x[1], p \o e)}, rev), limit), Len(p))
IterR(m, p, q, limit, rev) ==
  StripAll(Take(Order({x \in m : HasPrefix(x[1], p \o q)}, rev), limit), Len(p))

\* key-only scans (db.IterateKey / Reader.IterateKey): the keys of the same prefix iteration
KeysOf(s) == [i \in 1..Len(s) |-> s[i][1]]

(* ---- snapshots -------------------------------------------------------------- *)
(* A snapshot is taken through a store OBJECT (the root or any view derived from  *)
(* it); ids are per object.  It holds the whole staged state (eff) of that       *)
(* moment, whatever view took it, and restoring it through the same object gives *)
(* back exactly that state.  The statement does not say whether an id stays      *)
(* usable after it was restored, nor whether snapshots taken after the restored  *)
(* one survive: snapshots are kept in `snaps` for ever (a later successful       *)
(* restore must still return their state), while MustRestore lists the ones      *)
(* whose restore may not fail: taken, not deleted, not yet restored, and no      *)
(* snapshot older than them restored since.                                      *)
SnapKey(obj, id) == <<obj, id>>
AfterRestore(sure, snaps, k) == {x \in sure : snaps[x].n < snaps[k].n}

(* ---- consumers ---------------------------------------------------------------- *)
\* batchdb.NewWithPrefix(db, batch, P) as the writer of Commit: the staged state of the keys under `root` is written
\* under P \o key.  If the keys under P mirrored the keys under root before, they mirror eff afterwards.
Shift(m, root, P) == {<<P \o x[1], x[2]>> : x \in {y \in m : HasPrefix(y[1], root)}}
BatchCommit(old, new, root, P) == {x \in old : ~HasPrefix(x[1], P)} \cup Shift(new, root, P)

\* pkg/consensus/liskbft/util.go: parameters valid at height h = the entry with the largest 4-byte big-endian key <= h
\* (Range(0, h, 1, reverse)); pruning below h keeps that entry and drops the older ones (Range(0, h, -1, forward))
Zero4 == <<0, 0, 0, 0>>
AtHeight(m, p, h) == LET r == RangeR(m, p, Zero4, h, 1, TRUE) IN IF Len(r) = 0 THEN -1 ELSE r[1][2]
PruneBelow(m, p, h) ==
  LET inr == {x \in m : LexLeq(p \o Zero4, x[1]) /\ LexLeq(x[1], p \o h)} IN
  IF inr = {} THEN m
  ELSE LET last == CHOOSE x \in inr : \A y \in inr : LexLeq(y[1], x[1]) IN m \ (inr \ {last})

(* ---- diff returned by Commit: what must be undone to get db back ---------- *)
DiffOf(old, new) ==
  [added   |-> Keys(new) \ Keys(old),
   updated |-> {e \in old : Has(new, e[1]) /\ Val(new, e[1]) # e[2]},
   deleted |-> {e \in old : ~Has(new, e[1])}]
Revert(m, d) ==
  LET a == {e \in m : e[1] \notin d.added}
      b == {e \in a : e[1] \notin Keys(d.updated) /\ e[1] \notin Keys(d.deleted)}
  IN b \cup d.updated \cup d.deleted
\* reversal of the commit diff restores the previous database contents
DiffSound(old, new) == Revert(new, DiffOf(old, new)) = old
=============================================================================
