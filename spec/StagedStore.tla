----------------------------- MODULE StagedStore -----------------------------
(***************************************************************************)
(* Staged state store (pkg/db/diffdb over pkg/db) - property C12.          *)
(* Keys are byte strings = sequences of naturals, ordered bytewise.        *)
(* The overlay semantics is DEFINED as: every read through any prefix view *)
(* returns what the same read returns on eff = db with all staged writes   *)
(* and deletes applied.  One action per public call of diffdb.Database.    *)
(*   db    : committed database contents    (set of <<key, value>>)        *)
(*   eff   : db with the staged operations applied                         *)
(*   snaps : snapshot id -> eff at the time of the snapshot                *)
(***************************************************************************)
EXTENDS Integers, Sequences, FiniteSets, SequencesExt, TLC

RECURSIVE LexLess(_, _)
LexLess(a, b) ==
  IF Len(a) = 0 THEN Len(b) > 0
  ELSE IF Len(b) = 0 THEN FALSE
  ELSE IF a[1] # b[1] THEN a[1] < b[1]
  ELSE LexLess(Tail(a), Tail(b))
LexLeq(a, b) == a = b \/ LexLess(a, b)

HasPrefix(k, p) == Len(k) >= Len(p) /\ SubSeq(k, 1, Len(p)) = p
Strip(k, n) == SubSeq(k, n + 1, Len(k))

Keys(m) == {e[1] : e \in m}
Has(m, k) == k \in Keys(m)
Val(m, k) == (CHOOSE e \in m : e[1] = k)[2]
Put(m, k, v) == {e \in m : e[1] # k} \cup {<<k, v>>}
Rem(m, k) == {e \in m : e[1] # k}

SortAsc(S) == SetToSortSeq(S, LAMBDA a, b : LexLess(a[1], b[1]))
Order(S, rev) == IF rev THEN Reverse(SortAsc(S)) ELSE SortAsc(S)
Take(s, limit) == IF limit < 0 \/ Len(s) <= limit THEN s ELSE SubSeq(s, 1, limit)
StripAll(s, n) == [i \in 1..Len(s) |-> <<Strip(s[i][1], n), s[i][2]>>]

(* ---- reads on a map m through a view with full prefix p ------------------ *)
GetR(m, p, k) == IF Has(m, p \o k) THEN Val(m, p \o k) ELSE -1
RangeR(m, p, s, e, limit, rev) ==
  StripAll(Take(Order({x \in m : LexLeq(p \o s, x[1]) /\ LexLeq(x[1], p \o e)}, rev), limit), Len(p))
IterR(m, p, q, limit, rev) ==
  StripAll(Take(Order({x \in m : HasPrefix(x[1], p \o q)}, rev), limit), Len(p))

(* ---- diff returned by Commit: what must be undone to get db back ---------- *)
DiffOf(old, new) ==
  [added   |-> Keys(new) \ Keys(old),
   updated |-> {e \in old : Has(new, e[1]) /\ Val(new, e[1]) # e[2]},
   deleted |-> {e \in old : ~Has(new, e[1])}]
Revert(m, d) ==
  LET a == {e \in m : e[1] \notin d.added}
      b == {e \in a : e[1] \notin Keys(d.updated) /\ e[1] \notin Keys(d.deleted)}
  IN b \cup d.updated \cup d.deleted
\* reversal of the commit diff restores the previous database contents
DiffSound(old, new) == Revert(new, DiffOf(old, new)) = old
=============================================================================
