------------------------------ MODULE ReqResp ------------------------------
(***************************************************************************)
(* C17 - request/response layer of pkg/p2p (message_protocol.go).          *)
(*                                                                         *)
(* A call (RequestFrom) makes up to MaxRetry+1 attempts; every attempt has *)
(* a fresh message id <<call, attempt>>.  An attempt sends the request,    *)
(* registers a per-id channel in resCh (protected by resMu), and waits in  *)
(* a select for the response, the timeout or the cancellation of ctx; it   *)
(* then removes the entry again (under resMu).  The response handler       *)
(* (onResponse, one goroutine per received response) takes resMu, looks    *)
(* the id up and delivers on the channel.                                  *)
(*                                                                         *)
(* The remote peer, its handler latency and the network are environment:   *)
(* a sent request puts response instance 0 of its id in flight, it may     *)
(* arrive at any later time (also after the deadline); the environment     *)
(* may put further copies of a response (duplicates) in flight.            *)
(*                                                                         *)
(* The SHAPE of the implementation is described by four constants so that  *)
(* the same specification covers today's code and its repaired forms:      *)
(*   RegisterFirst    resCh[id] is registered before the request is sent   *)
(*   DeliverUnderLock onResponse keeps resMu while it sends on the channel *)
(*   Buffered         the per-request channel has capacity 1               *)
(*   TrySend          (Buffered only) the send is `select{case ch<-r: default:}`*)
(* Today's code: FALSE / TRUE / FALSE / FALSE.                             *)
(*   SendUnderLock    (RegisterFirst only) the requester keeps resMu from   *)
(*                    the registration until mp.send returned              *)
(*                                                                         *)
(* Stall is the set of calls whose network send does not complete inside   *)
(* the horizon of a behaviour (the peer accepts the TCP connection and     *)
(* never speaks, a black-holed address): such a call stays in its send     *)
(* step.  It counts as blocked in the ENVIRONMENT - the layer must not be   *)
(* blocked by it (NoDeadlock quantifies over the other calls).             *)
(* CanGiveUp is the set of calls whose ctx carries a deadline: after a     *)
(* timed-out attempt such a call may return "timeout" without using the    *)
(* whole retry budget (the statement says "within its timeout and retry    *)
(* budget", it does not demand that the budget is exhausted).              *)
(*                                                                         *)
(* The requester's critical sections (register, unregister) contain no     *)
(* blocking operation and touch only `reg`, so each is one atomic action   *)
(* enabled when resMu is free; only onResponse holds resMu across steps.   *)
(***************************************************************************)
EXTENDS Integers, FiniteSets, TLC

CONSTANTS Calls,            \* concurrent RequestFrom calls
          MaxRetry,         \* retries after the first attempt (messageMaxRetries)
          MaxDup,           \* copies of one response the environment may add (per id)
          DupBudget,        \* total number of duplicates in a behaviour
          CanCancel,        \* calls whose ctx may be cancelled
          CanFail,          \* calls whose send may fail (stream error)
          RegisterFirst, DeliverUnderLock, Buffered, TrySend,
          SendUnderLock,    \* shape: resMu is kept across mp.send
          Stall,            \* calls whose send blocks in the network for the whole behaviour
          CanGiveUp         \* calls that may return "timeout" before the retry budget is used up

ASSUME TrySend => Buffered
ASSUME SendUnderLock => RegisterFirst

Ids   == Calls \X (0..MaxRetry)            \* message ids
Resps == Calls \X (0..MaxRetry) \X (0..MaxDup)   \* response instances <<c, k, d>>
NoId  == <<0, 0>>
IdOf(r) == <<r[1], r[2]>>

VARIABLES pc,      \* per call: "start" "sent" "registered" "waiting" "got" "timedout" "cancelled" "failed" "done"
          att,     \* per call: current attempt number
          reg,     \* registered ids (keys of resCh)
          lock,    \* holder of resMu: NoId or the response instance <<c,k,d>> (uniformly tuples)
          net,     \* response instances in flight
          chanBuf, \* ids whose buffered channel holds a value
          rpc,     \* per response instance, pc of onResponse: "idle" "wantlock" "locked" "sending" "sent" "done" "miss"
          result,  \* per call: "none" "resp" "timeout" "cancel" "error"
          got,     \* per call: id of the response that was delivered to it (NoId if none)
          dups     \* duplicates injected so far
vars == <<pc, att, reg, lock, net, chanBuf, rpc, result, got, dups>>

Cur(c) == <<c, att[c]>>
Free == lock = NoId
\* lock token of a requester that keeps resMu across its send (never a response instance: third component -1)
ReqTok(c) == <<c, att[c], -1>>
ReqToks == Calls \X (0..MaxRetry) \X {-1}
SendPc == IF RegisterFirst THEN "registered" ELSE "start"

Init == /\ pc = [c \in Calls |-> "start"] /\ att = [c \in Calls |-> 0]
        /\ reg = {} /\ lock = NoId /\ net = {} /\ chanBuf = {}
        /\ rpc = [r \in Resps |-> "idle"]
        /\ result = [c \in Calls |-> "none"] /\ got = [c \in Calls |-> NoId] /\ dups = 0

(* ------------------------------ requester ------------------------------ *)
Send(c) ==
  /\ c \notin Stall
  /\ pc[c] = SendPc
  /\ net' = net \cup {<<c, att[c], 0>>}
  /\ pc' = [pc EXCEPT ![c] = IF RegisterFirst THEN "waiting" ELSE "sent"]
  /\ lock' = (IF lock = ReqTok(c) THEN NoId ELSE lock)
  /\ UNCHANGED <<att, reg, chanBuf, rpc, result, got, dups>>

\* mp.send returns an error (no stream, ctx cancelled while sending): the call returns the error
SendFail(c) ==
  /\ c \in CanFail /\ c \notin Stall
  /\ pc[c] = SendPc
  /\ pc' = [pc EXCEPT ![c] = IF RegisterFirst THEN "failed" ELSE "done"]
  /\ result' = [result EXCEPT ![c] = "error"]
  /\ lock' = (IF lock = ReqTok(c) THEN NoId ELSE lock)
  /\ UNCHANGED <<att, reg, net, chanBuf, rpc, got, dups>>

Register(c) ==
  /\ pc[c] = (IF RegisterFirst THEN "start" ELSE "sent")
  /\ Free
  /\ reg' = reg \cup {Cur(c)}
  /\ pc' = [pc EXCEPT ![c] = IF RegisterFirst THEN "registered" ELSE "waiting"]
  /\ lock' = (IF SendUnderLock THEN ReqTok(c) ELSE lock)     \* kept until Send / SendFail
  /\ UNCHANGED <<att, net, chanBuf, rpc, result, got, dups>>

\* select: receive - rendezvous with an onResponse blocked in the send, or take the buffered value
Recv(c) ==
  /\ pc[c] = "waiting"
  /\ \/ /\ ~Buffered
        /\ \E r \in Resps : /\ IdOf(r) = Cur(c) /\ rpc[r] = "sending"
                            /\ rpc' = [rpc EXCEPT ![r] = "sent"]
        /\ UNCHANGED chanBuf
     \/ /\ Buffered /\ Cur(c) \in chanBuf
        /\ chanBuf' = chanBuf \ {Cur(c)} /\ UNCHANGED rpc
  /\ pc' = [pc EXCEPT ![c] = "got"]
  /\ result' = [result EXCEPT ![c] = "resp"]
  /\ got' = [got EXCEPT ![c] = Cur(c)]     \* the channel is the one registered under Cur(c)
  /\ UNCHANGED <<att, reg, lock, net, dups>>

\* select: time.After(timeout)
Timeout(c) ==
  /\ pc[c] = "waiting"
  /\ pc' = [pc EXCEPT ![c] = "timedout"]
  /\ UNCHANGED <<att, reg, lock, net, chanBuf, rpc, result, got, dups>>

\* select: ctx.Done()
Cancel(c) ==
  /\ c \in CanCancel /\ pc[c] = "waiting"
  /\ pc' = [pc EXCEPT ![c] = "cancelled"]
  /\ result' = [result EXCEPT ![c] = "cancel"]
  /\ UNCHANGED <<att, reg, lock, net, chanBuf, rpc, got, dups>>

\* delete(resCh, id) under resMu; a timed-out attempt is retried with a fresh id while the budget lasts
Unreg(c) ==
  /\ pc[c] \in {"got", "timedout", "cancelled", "failed"}
  /\ Free
  /\ reg' = reg \ {Cur(c)}
  /\ chanBuf' = chanBuf \ {Cur(c)}      \* the channel is unreachable from now on (garbage)
  /\ \/ /\ pc[c] = "timedout" /\ att[c] < MaxRetry
        /\ pc' = [pc EXCEPT ![c] = "start"] /\ att' = [att EXCEPT ![c] = @ + 1] /\ UNCHANGED result
     \/ /\ ~(pc[c] = "timedout" /\ att[c] < MaxRetry) \/ c \in CanGiveUp   \* a deadline that cannot cover another attempt
        /\ pc' = [pc EXCEPT ![c] = "done"] /\ UNCHANGED att
        /\ result' = [result EXCEPT ![c] = IF pc[c] = "timedout" THEN "timeout" ELSE @]
  /\ UNCHANGED <<lock, net, rpc, got, dups>>

(* ---------------- onResponse on the requesting host, per response instance ---------------- *)
\* environment: one more copy of a response for a request that was sent
Dup(r) ==
  /\ r[3] > 0 /\ dups < DupBudget
  /\ rpc[r] = "idle" /\ r \notin net
  /\ LET p == <<r[1], r[2], r[3] - 1>> IN p \in net \/ rpc[p] # "idle"
  /\ net' = net \cup {r} /\ dups' = dups + 1
  /\ UNCHANGED <<pc, att, reg, lock, chanBuf, rpc, result, got>>

Arrive(r) ==
  /\ r \in net /\ rpc[r] = "idle"
  /\ net' = net \ {r}
  /\ rpc' = [rpc EXCEPT ![r] = "wantlock"]
  /\ UNCHANGED <<pc, att, reg, lock, chanBuf, result, got, dups>>

ResLock(r) ==
  /\ rpc[r] = "wantlock" /\ Free
  /\ lock' = r
  /\ rpc' = [rpc EXCEPT ![r] = "locked"]
  /\ UNCHANGED <<pc, att, reg, net, chanBuf, result, got, dups>>

\* lookup under resMu; Found(r) / Missed(r) are the two outcomes
Found(r) ==
  /\ rpc[r] = "locked" /\ IdOf(r) \in reg
  /\ IF Buffered /\ IdOf(r) \notin chanBuf
     THEN /\ chanBuf' = chanBuf \cup {IdOf(r)} /\ rpc' = [rpc EXCEPT ![r] = "done"] /\ lock' = NoId
     ELSE IF Buffered /\ TrySend
     THEN /\ rpc' = [rpc EXCEPT ![r] = "done"] /\ lock' = NoId /\ UNCHANGED chanBuf   \* full: dropped
     ELSE /\ rpc' = [rpc EXCEPT ![r] = "sending"]                                       \* blocks in ch <- resp
          /\ lock' = (IF DeliverUnderLock THEN lock ELSE NoId) /\ UNCHANGED chanBuf
  /\ UNCHANGED <<pc, att, reg, net, result, got, dups>>

Missed(r) ==
  /\ rpc[r] = "locked" /\ IdOf(r) \notin reg
  /\ rpc' = [rpc EXCEPT ![r] = "miss"] /\ lock' = NoId
  /\ UNCHANGED <<pc, att, reg, net, chanBuf, result, got, dups>>

\* a send that was blocked on a full buffered channel proceeds when the value was taken
BufSend(r) ==
  /\ Buffered /\ rpc[r] = "sending" /\ IdOf(r) \notin chanBuf
  /\ chanBuf' = chanBuf \cup {IdOf(r)}
  /\ rpc' = [rpc EXCEPT ![r] = "sent"]
  /\ UNCHANGED <<pc, att, reg, lock, net, result, got, dups>>

\* after the send completed onResponse returns (deferred Unlock if it still holds resMu)
ResDone(r) ==
  /\ rpc[r] = "sent"
  /\ lock' = (IF lock = r THEN NoId ELSE lock)
  /\ rpc' = [rpc EXCEPT ![r] = "done"]
  /\ UNCHANGED <<pc, att, reg, net, chanBuf, result, got, dups>>

ReqStep(c) == Send(c) \/ SendFail(c) \/ Register(c) \/ Recv(c) \/ Timeout(c) \/ Cancel(c) \/ Unreg(c)
ResStep(r) == Dup(r) \/ Arrive(r) \/ ResLock(r) \/ Found(r) \/ Missed(r) \/ BufSend(r) \/ ResDone(r)
Next == (\E c \in Calls : ReqStep(c)) \/ (\E r \in Resps : ResStep(r))

Spec == Init /\ [][Next]_vars /\ WF_vars(Next)

(* ------------------------------ properties ------------------------------ *)
TypeOK ==
  /\ pc \in [Calls -> {"start", "sent", "registered", "waiting", "got", "timedout", "cancelled", "failed", "done"}]
  /\ att \in [Calls -> 0..MaxRetry]
  /\ reg \subseteq Ids /\ net \subseteq Resps /\ chanBuf \subseteq Ids
  /\ lock \in Resps \cup {NoId} \cup ReqToks
  /\ rpc \in [Resps -> {"idle", "wantlock", "locked", "sending", "sent", "done", "miss"}]
  /\ result \in [Calls -> {"none", "resp", "timeout", "cancel", "error"}]

\* a stalled call sits in its send step for ever: blocked in the environment, not in the layer
Blocked(c) == c \in Stall /\ pc[c] = SendPc
CallsDone == \A c \in Calls : pc[c] = "done" \/ Blocked(c)
AllDone == CallsDone /\ \A r \in Resps : rpc[r] \in {"idle", "done", "miss"}

\* no goroutine of the layer is blocked for ever: whenever something is unfinished a step is possible
NoDeadlock == AllDone \/ ENABLED Next

\* a response that arrived while its attempt was still going to wait for it is never dropped
NoLostReply ==
  \A r \in Resps : rpc[r] = "miss" => ~(att[r[1]] = r[2] /\ pc[r[1]] \in {"sent", "registered", "waiting"})

\* the response handed to a call is the one for the id of its (last) attempt
Correlated == \A c \in Calls : result[c] = "resp" => got[c] = Cur(c)

\* nothing stays registered when every call has returned
NoLeak == CallsDone => reg \subseteq {Cur(c) : c \in {x \in Calls : Blocked(x)}}

\* a returned call has a definite result; a timeout only after the whole retry budget
ResultSane == \A c \in Calls : pc[c] = "done" => /\ result[c] # "none"
                                                  /\ (result[c] = "timeout" => att[c] = MaxRetry \/ c \in CanGiveUp)

\* (trace level) h = ids for which the remote handler returned and its reply was handed to the responder's layer: a reply
\* that is still in flight when everything is quiescent never reached the lookup of the requesting host - it was lost on
\* the way (responder's respond / requester's onResponse prefix: read, decode, procedure check, rate limit)
Vanished(h) == {id \in h : <<id[1], id[2], 0>> \in net}

\* liveness (under weak fairness, no state constraint): every call returns, every onResponse finishes
Terminates == <>[]AllDone
EveryCallReturns == \A c \in Calls \ Stall : <>(pc[c] = "done")
=============================================================================
