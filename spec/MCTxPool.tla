----------------------------- MODULE MCTxPool -----------------------------
EXTENDS TxPool
\* universes used by the cfg files (cfg syntax has neither records nor tuples)
\* 2 senders x nonces 0..3 x 2 fee levels; size 2, so the fee priorities are 1 and 2
S2 == {1, 2}
Tx16 == {[id |-> s * 100 + n * 10 + f, sender |-> s, nonce |-> n, fee |-> f, size |-> 2] :
           s \in S2, n \in 0..3, f \in {2, 4}}
\* 2 senders x nonces 0..2 x 2 fee levels
Tx12 == {[id |-> s * 100 + n * 10 + f, sender |-> s, nonce |-> n, fee |-> f, size |-> 2] :
           s \in S2, n \in 0..2, f \in {2, 4}}
\* 3 senders x nonces 0..2 x 2 fee levels
S3 == {1, 2, 3}
Tx18 == {[id |-> s * 100 + n * 10 + f, sender |-> s, nonce |-> n, fee |-> f, size |-> 2] :
           s \in S3, n \in 0..2, f \in {2, 4}}
=============================================================================
